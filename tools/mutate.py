#!/usr/bin/env python3
"""Self-test: apply a property-breaking edit to /repo's working tree, run the property's check, revert.
usage: mutate.py list | run <name>... | all [--tests]
Mutants live in /verif/mutants/mutants.json: {name, property, file, old, new, note}.
The edit is textual (old must occur exactly once) and is ALWAYS reverted with git checkout."""
import json, subprocess, sys, os
V = os.path.dirname(os.path.dirname(os.path.abspath(__file__)))
M = json.load(open(os.path.join(V, "mutants", "mutants.json")))
def sh(cmd, **kw): return subprocess.run(cmd, shell=True, capture_output=True, text=True, **kw)
def run(m, tests=False, tier="quick"):
    assert sh("git -C /repo status --porcelain").stdout.strip() == "", "/repo is dirty"
    path = os.path.join("/repo", m["file"])
    s = open(path).read()
    assert s.count(m["old"]) == 1, f"{m['name']}: old text occurs {s.count(m['old'])} times"
    open(path, "w").write(s.replace(m["old"], m["new"]))
    try:
        res = {"name": m["name"], "property": m["property"]}
        b = sh("cd /repo && GOFLAGS=-mod=mod GOPROXY=off go build ./...")
        if b.returncode != 0:
            res["result"] = "does-not-compile"; res["out"] = b.stderr[-400:]; return res
        if tests:
            pkg = "./" + os.path.dirname(m["file"]) + "/..."
            t = sh(f"cd /repo && GOFLAGS=-mod=mod GOPROXY=off go test -vet=off -count=1 ./...")
            res["repo_tests_pass"] = t.returncode == 0
        c = sh(f"cd {V} && VERIF_BUDGET_S=600 ./check {m['property']} {tier}")
        viol = [l for l in c.stdout.splitlines() if l.startswith("VIOLATION")]
        res["exit"] = c.returncode; res["violations"] = len(viol)
        res["first"] = next((l for l in c.stdout.splitlines() if l.startswith("  kind=")), "")[:300]
        res["result"] = "caught" if c.returncode == 1 and viol else "MISSED"
        return res
    finally:
        sh("git -C /repo checkout -- .")
if sys.argv[1] == "list":
    for m in M: print(m["name"], m["property"], m["file"], "-", m.get("note", ""))
else:
    tests = "--tests" in sys.argv
    names = [a for a in sys.argv[2:] if not a.startswith("--")]
    sel = [m for m in M if sys.argv[1] == "all" or m["name"] in names or m["property"] in names]
    for m in sel:
        print(json.dumps(run(m, tests)), flush=True)
    sh(f"cd {V} && true")
