#!/usr/bin/env python3
"""Self-test: apply a property-breaking textual edit in a scratch worktree of /repo's HEAD, run the property's
check against it (VERIF_REPO), remove the worktree. /repo itself is not touched, several mutants run side by side.
usage: mutate.py list | [-j N] run <name|property>... | [-j N] all [--tests]
Mutants live in /verif/mutants/mutants.json: {name, property, file, old, new, note}; old must occur exactly once.
Results are written to /verif/mutants/last_results.json."""
import json, subprocess, sys, os, concurrent.futures
V = os.path.dirname(os.path.dirname(os.path.abspath(__file__)))
M = json.load(open(os.path.join(V, "mutants", "mutants.json")))
def sh(cmd, **kw): return subprocess.run(cmd, shell=True, capture_output=True, text=True, **kw)
def run(m, tests=False, tier="quick"):
    wt = f"/tmp/mut-{m['name']}"
    sh(f"git -C /repo worktree remove --force {wt}")
    assert sh(f"git -C /repo worktree add --detach {wt} HEAD").returncode == 0
    res = {"name": m["name"], "property": m["property"], "note": m.get("note", "")}
    try:
        path = os.path.join(wt, m["file"])
        s = open(path).read()
        if s.count(m["old"]) != 1:
            res["result"] = f"stale-mutant (old text occurs {s.count(m['old'])} times)"; return res
        open(path, "w").write(s.replace(m["old"], m["new"]))
        b = sh(f"cd {wt} && GOFLAGS=-mod=mod GOPROXY=off go build ./...")
        if b.returncode != 0:
            res["result"] = "does-not-compile"; res["out"] = b.stderr[-400:]; return res
        if tests:
            t = sh(f"cd {wt} && GOFLAGS=-mod=mod GOPROXY=off go test -vet=off -count=1 ./...")
            res["repo_tests_pass"] = t.returncode == 0
        c = sh(f"cd {V} && VERIF_REPO={wt} VERIF_BUDGET_S=600 ./check {m['property']} {tier}")
        viol = [l for l in c.stdout.splitlines() if l.startswith("VIOLATION")]
        res["exit"] = c.returncode; res["violations"] = len(viol)
        res["first"] = next((l for l in c.stdout.splitlines() if l.startswith("  kind=")), "")[:300]
        res["result"] = "caught" if c.returncode == 1 and viol else "MISSED"
        return res
    finally:
        sh(f"git -C /repo worktree remove --force {wt}")
        tag = sh(f'echo "{wt}" | md5sum | cut -c1-8').stdout.strip()
        sh(f"rm -rf {V}/alt/run-{tag} ~/.cache/verif-overlay-{tag} ~/.cache/verif-vmap-{tag}")
args = sys.argv[1:]
jobs = 4
if args[:1] == ["-j"]:
    jobs, args = int(args[1]), args[2:]
if args[0] == "list":
    for m in M: print(m["name"], m["property"], m["file"], "-", m.get("note", ""))
else:
    tests = "--tests" in args
    names = [a for a in args[1:] if not a.startswith("--")]
    sel = [m for m in M if args[0] == "all" or m["name"] in names or m["property"] in names]
    out = []
    with concurrent.futures.ThreadPoolExecutor(jobs) as ex:
        for r in ex.map(lambda m: run(m, tests), sel):
            print(json.dumps(r), flush=True)
            out.append(r)
    if args[0] == "all":
        json.dump(out, open(os.path.join(V, "mutants", "last_results.json"), "w"), indent=1)
