#!/usr/bin/env python3
"""Regenerate the table of seeded changes in DESIGN.md (between the markers) from seeded/*/meta.json."""
import json, glob, re
V = "/verif"
rows = []
for d in sorted(glob.glob(V + "/seeded/*/")):
    m = json.load(open(d + "meta.json"))
    f = (m.get("files_changed") or [""])[0].split("|")[0].strip()
    needs = (m.get("needs_to_manifest") or m.get("needs") or m.get("needs_legacy") or "").replace("|", "/")
    first = "caught" if m.get("caught_by_own_property_check") else "missed"
    now = m.get("caught_by_own_property_check_now")
    now = "caught" if now or (now is None and first == "caught") else ("n/a" if now is None else "MISSED")
    if m.get("superseded"):
        now = "harmless now"  # a later repair of /repo made the change harmless; its own demo passes with it applied
    rows.append("| %s | %s | %s | %s | %s | %s |" % (m["id"], f, needs[:260], first, now, ((m.get("strengthening") or "") + (" — " + m["superseded"] if m.get("superseded") else "")).replace("|", "/")[:330]))
table = "| id | file changed | needs, to manifest | at intake | now | what was strengthened after a miss |\n|----|--------------|--------------------|-----------|-----|-----------------------|\n" + "\n".join(rows) + "\n"
s = open(V + "/DESIGN.md").read()
a, b = "<!-- seeded-table:begin -->\n", "<!-- seeded-table:end -->\n"
if a in s:
    s = s[:s.index(a) + len(a)] + table + s[s.index(b):]
else:
    i = s.index("| id | file changed |")
    j = s.index("\n\n", i) + 1
    s = s[:i] + a + table + b + s[j:]
open(V + "/DESIGN.md", "w").write(s)
caught_first = sum("| caught | " in r.split("|", 4)[4][:12] or r.split("|")[4].strip() == "caught" for r in rows)
print(len(rows), "rows;", sum(r.split("|")[4].strip() == "caught" for r in rows), "caught at intake;", sum(r.split("|")[5].strip() == "caught" for r in rows), "caught now")
