#!/usr/bin/env python3
"""seed_prompt.py <Cnn> <worktree> — prints the prompt given to an independent sub-agent that seeds a
property-breaking change. The agent receives only the property text, its own worktree and the list of
spots/triggers earlier exercises already used (from seeded/*/meta.json); nothing else from /verif."""
import glob, json, re, subprocess, sys

pid, wt = sys.argv[1], sys.argv[2]
prop = next(json.loads(l) for l in open('/verif/properties.jsonl') if json.loads(l)['id'] == pid)
anch = prop.get('anchors', {})
files = ', '.join(anch.get('files', [])) if isinstance(anch, dict) else ''
mech = ''
if isinstance(anch, dict):
    ms = anch.get('mechanism', anch.get('mechanisms', []))
    parts = []
    for m in ms:
        if isinstance(m, dict):
            parts.append(f"{m.get('what', m.get('name', ''))} @ {m.get('where', m.get('location', ''))}")
        else:
            parts.append(str(m))
    mech = '; '.join(parts)
text = f"Title: {prop['title']}\n\nStatement: {prop['statement']}\n\nQuantifier: {prop['quantifier']['text'] if isinstance(prop['quantifier'], dict) else prop['quantifier']}\n\nCode anchors (files): {files}\nMechanisms: {mech}\n"
used = []
for mp in sorted(glob.glob(f'/verif/seeded/{pid}-*/meta.json')):
    m = json.load(open(mp))
    f = (m.get('files_changed') or ['?'])[0].split('|')[0].strip()
    used.append(f"{f}: {m.get('needs_to_manifest', '')[:130]}")
hint = ("something SPECIFIC: a particular input shape, operation history, ordering, configuration or interleaving that ordinary use and "
        "small obvious test cases do not hit. Look for mechanisms in the anchored files that have NOT been used before (see the list of used "
        "spots below) — for instance a different function, a helper used by only one code path, an option/configuration that changes the path "
        "taken, an interaction between two features. Earlier exercises already used the following spots/triggers — do NOT reuse them (neither "
        "the spot nor the trigger): " + ' ;; '.join(used) + '.')
tmpl = open('/verif/tools/seed_prompt.tmpl').read()
print(tmpl.replace('__WT__', wt).replace('__PROPERTY__', text).replace('__HINT__', hint))
