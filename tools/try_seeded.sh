#!/bin/bash
# try_seeded.sh <seeded-name> [<check-id>]: apply seeded/<name>/patch.diff to /repo, run the quick check, revert.
set -u
name=$1; pid=${2:-${name%%-*}}
[ -z "$(git -C /repo status --porcelain)" ] || { echo "/repo dirty" >&2; exit 2; }
git -C /repo apply /verif/seeded/$name/patch.diff || exit 2
cd /verif && ./check $pid quick > /tmp/try_$name.log 2>&1; rc=$?
git -C /repo checkout -- .
echo "$name vs $pid: exit=$rc violations=$(grep -c '^VIOLATION' /tmp/try_$name.log)"
grep -m3 "kind=" /tmp/try_$name.log | cut -c1-400
