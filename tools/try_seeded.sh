#!/bin/bash
# try_seeded.sh <seeded-name> [<check-id>]: apply seeded/<name>/patch.diff in a scratch worktree, run the quick check
# against it (VERIF_REPO), remove the worktree. /repo is not touched.
set -u
name=$1; pid=${2:-${name%%-*}}
wt=/tmp/try-$name-$pid
git -C /repo worktree remove --force $wt >/dev/null 2>&1
git -C /repo worktree add --detach $wt HEAD >/dev/null 2>&1 || exit 2
git -C $wt apply /verif/seeded/$name/patch.diff || { git -C /repo worktree remove --force $wt; exit 2; }
cd /verif && VERIF_REPO=$wt ./check $pid quick > /tmp/try_$name.log 2>&1; rc=$?
git -C /repo worktree remove --force $wt
tag=$(echo "$wt" | md5sum | cut -c1-8); rm -rf /verif/alt/run-$tag ~/.cache/verif-overlay-$tag ~/.cache/verif-vmap-$tag
echo "$name vs $pid: exit=$rc violations=$(grep -c '^VIOLATION' /tmp/try_$name.log)"
grep -m3 "kind=" /tmp/try_$name.log | cut -c1-400
