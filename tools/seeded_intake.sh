#!/bin/bash
# seeded_intake.sh <property-id> <agent-worktree> <name> "<what it needs to manifest>"
# Packages an agent's working-tree change as SEEDED/patch.diff (+ NOTES.md) and runs seeded_verify.py on it.
set -eu
pid=$1; wt=$2; name=$3; needs=${4:-}
mkdir -p "$wt/SEEDED"
(cd "$wt" && git diff -- . ':!SEEDED' > SEEDED/patch.diff)
[ -s "$wt/SEEDED/patch.diff" ] || { echo "empty patch" >&2; exit 1; }
[ -f "$wt/SEEDED_NOTES.md" ] && mv "$wt/SEEDED_NOTES.md" "$wt/SEEDED/NOTES.md"
python3 /verif/tools/seeded_verify.py "$pid" "$wt" "$name"
python3 - "$name" "$needs" <<'PY'
import json,sys
p=f"/verif/seeded/{sys.argv[1]}/meta.json"; m=json.load(open(p)); m["needs_to_manifest"]=sys.argv[2]; json.dump(m,open(p,"w"),indent=1)
PY
