#!/usr/bin/env python3
"""fix_reverts.py [<finding-id>...]: every repaired finding is a regression mutant. For each fixed entry of
KNOWN_FINDINGS.json (default: all that name a commit), revert its fix commit in a scratch worktree of /repo's HEAD
and run the quick check of the property that found it (VERIF_REPO); the check must fail again. Results go to
mutants/fix_reverts.json. Reverts that conflict with later commits are recorded as such, not forced."""
import json, subprocess, sys, os
V = "/verif"
def sh(c): return subprocess.run(c, shell=True, capture_output=True, text=True)
d = json.load(open(V + "/KNOWN_FINDINGS.json"))
want = set(sys.argv[1:])
out_p = V + "/mutants/fix_reverts.json"
res = json.load(open(out_p)) if os.path.exists(out_p) else {}
for f in d["findings"]:
    if f.get("status") != "fixed" or not f.get("commit"):
        continue
    if want and f["id"] not in want:
        continue
    prop = f.get("property") or (f.get("properties") or [None])[0]
    if not prop:
        continue
    prop = prop.split()[0].split("/")[0]
    wt = "/tmp/fixrev-" + f["id"]
    sh(f"git -C /repo worktree remove --force {wt}")
    if sh(f"git -C /repo worktree add --detach {wt} HEAD").returncode != 0:
        continue
    try:
        r = sh(f"git -C {wt} revert --no-commit {f['commit']}")
        if r.returncode != 0:
            res[f["id"]] = {"property": prop, "commit": f["commit"], "revert": "conflicts with later commits", "caught": None}
            print(f["id"], prop, "revert conflicts", flush=True)
            continue
        if sh(f"cd {wt} && GOFLAGS=-mod=mod GOPROXY=off go build ./...").returncode != 0:
            res[f["id"]] = {"property": prop, "commit": f["commit"], "revert": "does not build", "caught": None}
            print(f["id"], prop, "revert does not build", flush=True)
            continue
        c = sh(f"cd {V} && VERIF_REPO={wt} VERIF_BUDGET_S=900 ./check {prop} quick")
        viol = [l for l in c.stdout.splitlines() if l.startswith("VIOLATION")]
        first = next((l.strip() for l in c.stdout.splitlines() if l.startswith("  kind=")), "")[:240]
        caught = c.returncode == 1 and bool(viol)
        res[f["id"]] = {"property": prop, "commit": f["commit"], "revert": "clean", "caught": caught, "first_detail": first}
        print(f["id"], prop, "caught" if caught else "MISSED", first[:140], flush=True)
    finally:
        sh(f"git -C /repo worktree remove --force {wt}")
        tag = sh(f'echo "{wt}" | md5sum | cut -c1-8').stdout.strip()
        sh(f"rm -rf {V}/alt/run-{tag} ~/.cache/verif-overlay-{tag} ~/.cache/verif-vmap-{tag}")
        json.dump(res, open(out_p, "w"), indent=1)
