#!/usr/bin/env python3
"""Re-run the property's quick check against stored seeded changes: seeded_recheck.py [-j N] [<name>...] (default: all).
Each change is applied in a scratch worktree of /repo's HEAD and the check runs with VERIF_REPO pointing at it
(/repo itself is not touched, so N of them run side by side); the outcome is appended to meta.json["rechecks"]."""
import json, os, subprocess, sys, glob, concurrent.futures
V = "/verif"
args = sys.argv[1:]
jobs = 4
if args[:1] == ["-j"]:
    jobs, args = int(args[1]), args[2:]
names = args or sorted(os.path.basename(d) for d in glob.glob(V + "/seeded/*") if os.path.isdir(d))
def sh(c): return subprocess.run(c, shell=True, capture_output=True, text=True)
head = sh(f"git -C {V} rev-parse --short HEAD").stdout.strip()
def one(n):
    mp = f"{V}/seeded/{n}/meta.json"
    meta = json.load(open(mp))
    wt = f"/tmp/recheck-{n}"
    sh(f"git -C /repo worktree remove --force {wt}")
    assert sh(f"git -C /repo worktree add --detach {wt} HEAD").returncode == 0
    try:
        ap = sh(f"git -C {wt} apply {V}/seeded/{n}/patch.diff")
        if ap.returncode != 0:
            return n, None, "patch does not apply: " + ap.stderr.strip()[:200], meta, mp
        prop = meta.get("check_property", meta["property"])
        c = sh(f"cd {V} && VERIF_REPO={wt} VERIF_BUDGET_S=900 ./check {prop} quick")
        viol = [l for l in c.stdout.splitlines() if l.startswith("VIOLATION")]
        first = next((l.strip() for l in c.stdout.splitlines() if l.startswith("  kind=")), "")[:300]
        return n, (c.returncode == 1 and bool(viol)), first, meta, mp
    finally:
        sh(f"git -C /repo worktree remove --force {wt}")
        tag = sh(f'echo "{wt}" | md5sum | cut -c1-8').stdout.strip()
        sh(f"rm -rf {V}/alt/run-{tag} ~/.cache/verif-overlay-{tag} ~/.cache/verif-vmap-{tag}")
with concurrent.futures.ThreadPoolExecutor(jobs) as ex:
    for n, caught, first, meta, mp in ex.map(one, names):
        prop = meta.get("check_property", meta["property"])
        meta.setdefault("rechecks", []).append({"verif_commit_before": head, "check": f"VERIF_REPO=<worktree with the patch> ./check {prop} quick", "caught": caught, "first_detail": first})
        meta["caught_by_own_property_check_now"] = caught
        json.dump(meta, open(mp, "w"), indent=1)
        print(n, "caught" if caught else ("N/A" if caught is None else "MISSED"), first[:160], flush=True)
