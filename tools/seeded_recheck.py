#!/usr/bin/env python3
"""Re-run the property's quick check against stored seeded changes: seeded_recheck.py [<name>...] (default: all).
Applies seeded/<name>/patch.diff to /repo, runs ./check, reverts; appends the outcome to meta.json["rechecks"]."""
import json, os, subprocess, sys, glob
V = "/verif"
names = sys.argv[1:] or sorted(os.path.basename(d) for d in glob.glob(V + "/seeded/*") if os.path.isdir(d))
def sh(c): return subprocess.run(c, shell=True, capture_output=True, text=True)
head = sh(f"git -C {V} rev-parse --short HEAD").stdout.strip()
for n in names:
    mp = f"{V}/seeded/{n}/meta.json"
    meta = json.load(open(mp))
    assert sh("git -C /repo status --porcelain").stdout.strip() == "", "/repo dirty"
    assert sh(f"git -C /repo apply {V}/seeded/{n}/patch.diff").returncode == 0
    try:
        prop = meta.get("check_property", meta["property"])
        c = sh(f"cd {V} && VERIF_BUDGET_S=900 ./check {prop} quick")
        viol = [l for l in c.stdout.splitlines() if l.startswith("VIOLATION")]
        first = next((l.strip() for l in c.stdout.splitlines() if l.startswith("  kind=")), "")[:300]
        caught = c.returncode == 1 and bool(viol)
    finally:
        sh("git -C /repo checkout -- .")
    meta.setdefault("rechecks", []).append({"verif_commit_before": head, "check": f"./check {prop} quick", "caught": caught, "first_detail": first})
    meta["caught_by_own_property_check_now"] = caught
    json.dump(meta, open(mp, "w"), indent=1)
    print(n, "caught" if caught else "MISSED", first[:160])
