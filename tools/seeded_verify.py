#!/usr/bin/env python3
"""Confirm an independently written breaking change and run our check against it.
usage: seeded_verify.py <property-id> <agent-worktree> [<name>]
The agent worktree must contain SEEDED/patch.diff and a demo test file (*_test.go, new, outside SEEDED/).
Steps (all in a FRESH scratch worktree of /repo's HEAD, removed afterwards):
  1 patch applies, builds; 2 the unedited suite passes with the patch; 3 the demo fails with the patch;
  4 the demo passes without it; 5 with the patch applied in that worktree run VERIF_REPO=<worktree> ./check <id> quick.
Writes /verif/seeded/<name>/{patch.diff, demo test, NOTES.md, meta.json}."""
import json, os, re, shutil, subprocess, sys, glob
pid, wt = sys.argv[1], sys.argv[2]
name = sys.argv[3] if len(sys.argv) > 3 else pid + "-1"
V = "/verif"
env = dict(os.environ, GOFLAGS="-mod=mod", GOPROXY="off")
def sh(cmd, cwd=None, timeout=3600):
    return subprocess.run(cmd, shell=True, cwd=cwd, env=env, capture_output=True, text=True, timeout=timeout)
patch = os.path.join(wt, "SEEDED", "patch.diff")
assert os.path.exists(patch), "no patch.diff"
# demo test files: untracked *_test.go outside SEEDED
st = sh("git status --porcelain --untracked-files=all", cwd=wt).stdout
demos = [l[3:] for l in st.splitlines() if l.startswith("??") and l.endswith("_test.go") and not l[3:].startswith("SEEDED/")]
assert demos, "no demo test file found: " + st
scratch = f"/tmp/sv-{name}"
sh(f"git -C /repo worktree remove --force {scratch}")
assert sh(f"git -C /repo worktree add --detach {scratch} HEAD").returncode == 0
meta = {"id": name, "property": pid, "source": "independent sub-agent given only the property text and its own worktree", "demo_files": demos}
try:
    a = sh(f"git apply {patch}", cwd=scratch)
    meta["patch_applies"] = a.returncode == 0
    assert a.returncode == 0, a.stderr
    meta["files_changed"] = sh("git diff --stat", cwd=scratch).stdout.strip().splitlines()
    b = sh("go build ./...", cwd=scratch)
    meta["builds"] = b.returncode == 0
    t = sh("go test -vet=off -count=1 ./...", cwd=scratch)
    meta["suite_passes_with_change"] = t.returncode == 0
    if t.returncode != 0:
        meta["suite_output_tail"] = t.stdout[-1500:]
    tests = []
    for d in demos:
        os.makedirs(os.path.dirname(os.path.join(scratch, d)), exist_ok=True)
        shutil.copy(os.path.join(wt, d), os.path.join(scratch, d))
        tests += re.findall(r"^func (Test\w+)\(", open(os.path.join(wt, d)).read(), re.M)
    pkgs = sorted({"./" + os.path.dirname(d) for d in demos})
    runre = "^(" + "|".join(tests) + ")$"
    cmd = f"go test -vet=off -count=1 -run '{runre}' " + " ".join(pkgs)
    w = sh(cmd, cwd=scratch)
    meta["demo_cmd"] = cmd
    meta["demo_fails_with_change"] = w.returncode != 0
    meta["demo_output_with_change"] = w.stdout[-1200:]
    sh(f"git apply -R {patch}", cwd=scratch)
    wo = sh(cmd, cwd=scratch)
    meta["demo_passes_without_change"] = wo.returncode == 0
    if wo.returncode != 0:
        meta["demo_output_without_change"] = wo.stdout[-1200:]
    # our check against the change: in the same scratch worktree (VERIF_REPO), so that /repo stays untouched
    # and several intakes can run side by side
    ap = sh(f"git apply {patch}", cwd=scratch)
    assert ap.returncode == 0, ap.stderr
    for d in demos:
        os.remove(os.path.join(scratch, d))
    c = sh(f"cd {V} && VERIF_REPO={scratch} VERIF_BUDGET_S=900 ./check {pid} quick")
    viol = [l for l in c.stdout.splitlines() if l.startswith("VIOLATION")]
    meta["check_cmd"] = f"VERIF_REPO=<scratch worktree with the patch> ./check {pid} quick"
    meta["check_exit"] = c.returncode
    meta["check_violation_lines"] = len(viol)
    meta["check_first_detail"] = next((l.strip() for l in c.stdout.splitlines() if l.startswith("  kind=")), "")[:400]
    meta["caught_by_own_property_check"] = c.returncode == 1 and bool(viol)
finally:
    sh(f"git -C /repo worktree remove --force {scratch}")
    tag = sh(f'echo "{scratch}" | md5sum | cut -c1-8').stdout.strip()
    shutil.rmtree(os.path.join(V, "alt", "run-" + tag), ignore_errors=True)
    for c in ("verif-overlay-", "verif-vmap-"):
        shutil.rmtree(os.path.expanduser("~/.cache/" + c + tag), ignore_errors=True)
out = os.path.join(V, "seeded", name)
os.makedirs(out, exist_ok=True)
shutil.copy(patch, os.path.join(out, "patch.diff"))
for d in demos:
    shutil.copy(os.path.join(wt, d), os.path.join(out, os.path.basename(d) + ".txt"))
    meta.setdefault("demo_placement", {})[os.path.basename(d) + ".txt"] = d
notes = os.path.join(wt, "SEEDED", "NOTES.md")
if os.path.exists(notes):
    shutil.copy(notes, os.path.join(out, "NOTES.md"))
meta["confirmed"] = all(meta.get(k) for k in ["patch_applies", "builds", "suite_passes_with_change", "demo_fails_with_change", "demo_passes_without_change"])
json.dump(meta, open(os.path.join(out, "meta.json"), "w"), indent=1)
print(json.dumps({k: meta[k] for k in ["id", "confirmed", "suite_passes_with_change", "demo_fails_with_change", "demo_passes_without_change", "caught_by_own_property_check", "check_first_detail"]}, indent=1))
