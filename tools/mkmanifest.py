#!/usr/bin/env python3
"""Regenerates /verif/MANIFEST.json from the table below (kept in one place so that it stays valid)."""
import json, os
V = os.path.dirname(os.path.dirname(os.path.abspath(__file__)))
CHECKS = {
 "C01": ("small-scope program enumeration (E1): every <=k-rule program of pools G,R,N,B x every pool EDB x store kinds, real parse+analyse+evaluate compared with a reference stratified naive evaluator",
         "bounded-exhaustive: every program/EDB/store within the stated scope is executed on the real engine and its full store compared (both directions) with the reference model; scope: <=3 rules (5 in the rounds frame), arity<=2, 3-6 constants",
         "reference evaluator verifmc/oracle; ProgramInfo reuse across EDBs (cross-checked by re-parsing a slice); F8 hash-collision conflation attributed as known finding", "4 C01"),
 "C20": ("differential small-scope program enumeration (E1): naive vs semi-naive evaluator on every transform-free <=k-rule program of pools G,R,N,B x every pool EDB",
         "bounded-exhaustive differential check: both evaluators are run on equal stores for every program/EDB in scope and the full stores compared",
         "SimpleInMemoryStore on both sides (the only store the naive evaluator takes); programs either evaluator rejects are outside the quantifier and counted", "4 C20"),
 "C02": ("small-scope program enumeration (E1): every aggregating rule of pool A alone and in pairs x every p/q EDB in scope, every ordered pair of a 44-constant universe as group keys, 14 wildcard bodies x every subset of {1,2}^3, compared with a per-rule group-and-fold reference",
         "bounded-exhaustive: every rule/pair/EDB in scope is evaluated by the real engine and the head predicates' extensions compared exactly with the union of the per-rule reductions of the reference",
         "reference evaluator verifmc/oracle; collected lists compared as multisets; with wildcards in an aggregated body only multiplicity-independent observations (groups, min/max/distinct-collect over named variables) are compared", "4 C02"),
 "C03": ("exhaustive enumeration of labelled dependency graphs (E1): all 5^9 (thorough 6^9) graphs over 3 IDB predicates (also with predicates that share one name and differ in arity, and with a built-in atom in front of every mention) and 3^16/4^16 over 4, real analysis.Stratify checked against Floyd-Warshall reachability; plus environment-deviation exploration (E3) of the map iteration order inside Stratify (vmap build, worker processes): all labelled 3-predicate graphs under 4 global orders and every single deviation",
         "bounded-exhaustive: for every dependency graph in scope the returned layers (or the failure) are validated against the definition: partition, map agreement, order of every edge, strictness of negative/aggregating edges, SCCs unsplit, failure iff a negative cycle",
         "graphs are built directly as analysis.Program (and a slice through parse+Analyze); map-iteration order inside Stratify is whatever the Go runtime picks on that run", "4 C03"),
 "C04": ("small-scope clause enumeration (E1): every ordered body of <=3 literals (thorough 4) over a 28-literal alphabet x 5 heads x 4 transform tails, through parse+Analyze; accepted clauses evaluated on 3 EDBs against the reference meaning of the clause as written",
         "bounded-exhaustive: for every clause in scope, acceptance implies (a) the reference can evaluate it in some order, (b) evaluation returns without panic/error, (c) the result equals the reference result (no literal ignored), (d) only ground facts",
         "reference evaluator verifmc/oracle; shapes with undocumented meaning (transform redefining a body variable, wildcard in an aggregated body) are outside the alphabet", "4 C04"),
 "C06": ("operation-history search (E2): every Add/Remove/Merge sequence up to depth d over a 12-atom universe on 12 store constructions, all observers in every reached state against a set model, the stores passed to Merge must stay unchanged; plus a size dimension: 1100-4200 hash-distinct atoms in three layouts added one by one (every Add judged, observers around sizes 1000/1024), re-Add, Merge both ways, Remove",
         "bounded-exhaustive: every history up to the depth bound is replayed on a fresh real store; return values, Contains for all atoms, GetFacts for all patterns (exactly-once), ListPredicates and EstimateFactCount are compared with a structural set model in every state",
         "set model = Go map keyed by verifmc/oracle structural key; wrappers modelled as read part + write part; teeing Merge writes through (required by the repo's own test); violations that coincide with a set keyed by Atom.Hash() are attributed to known finding F8", "4 C06"),
 "C13": ("operation-history search (E2): every insertion sequence up to depth d over 34 intervals (nanosecond timeline) and every insertion order of fixed interval sets, on the real TemporalStore and IntervalTree, all queries compared with a pointwise integer model; then Coalesce and its invariants",
         "bounded-exhaustive: every history in scope is replayed on a fresh store; every point, range and scan query, ContainsAt, counts, Add results and limit errors are compared with the model, then Coalesce is applied and instants-preserved / disjoint-non-adjacent / count are checked",
         "integer interval model; the limit-before-duplicate order of Add is accepted as documented; hash-colliding atoms attributed to known finding F8", "4 C13"),
 "C07": ("exhaustive law checking over full products of small argument domains (E1): 7 law families (constructor/accessor inverses, map/struct, ring, div/mod, orders, strings/names, reducers under all row permutations) on the real functional/builtin entry points",
         "bounded-exhaustive: every argument tuple of the stated domains is evaluated by functional.EvalApplyFn / EvalReduceFn / builtin.Decide and compared with an independent computation (math/big, Go strings, plain folds)",
         "domains: 11 boundary int64 values, 6 elements, lists up to length 3, maps/structs up to 2-3 entries in every argument order, 8 strings, 5 names, all permutations of all multisets of <=4 rows; duplicate-key maps outside the law", "4 C07"),
 "C08": ("exhaustive pairwise/triple-wise checking over a constructed universe of constants (E1): Equals vs structural truth, symmetry, transitivity, Equals=>Hash/String equal, String equal=>Equals, atoms; maps/structs from every argument order",
         "bounded-exhaustive: every ordered pair (and every triple of a sub-universe) of a ~3000-constant universe built through the public constructors is compared; every 2-3 entry map/struct over 8 keys (incl. hash-colliding ones) is built in every argument order",
         "structural truth = verifmc/oracle.Key; the Go-map iteration order inside ast.Map for equal-hash keys is sampled by 24 repeated constructions (not enumerated)", "4 C08"),
 "C09": ("exhaustive print/parse round trips over enumerated inputs (E1): every single ASCII byte and all short strings over a critical character set, every byte and byte pairs, boundary numbers/floats/times/durations, a ~5000-constant structured universe, every ordered pair of 22 delicate leaves in 11 container positions, atoms, the C04 clause space, temporal clauses, type expressions; every family that can carry an instant repeated under three non-UTC default timezones",
         "bounded-exhaustive: every object of the enumerated spaces is printed with String(), parsed with the matching parse entry point (constants evaluated with functional.EvalExpr) and compared with Equals and with an independent structural key; clauses additionally by print-parse-print fixpoint",
         "valid UTF-8 strings, lexer-valid names, finite floats, second-resolution timestamps in annotations (the alphabet the property names)", "4 C09"),
 "C12": ("exhaustive pairwise checking over a closed type universe x constant universe (E1): SetConforms(S,T) affirmed => members(S) subset members(T); UpperBound/LowerBound of every pair and of every triple of a sub-alphabet, membership by the library's HasType",
         "bounded-exhaustive: every ordered pair of a ~600-type universe is judged and checked against the membership matrix over ~1500 constants; every alarm carries a concrete separating constant",
         "relative to the constant universe V; two design inconsistencies asserted by the repo's own tests (map key contravariance, struct width subtyping vs exact membership) are recorded as known findings and attributed only when the witness is explained by exactly that relaxation", "4 C12"),
 "C19": ("exhaustive write/read cycles over enumerated stores (E1): one- and two-fact stores for every constant of the printable universe, every ordered predicate layout with 0-2 facts, formats plain/gzip/zstd x deterministic on/off, read back eagerly and lazily with every pattern query; wide predicates at the edges of the documented arity limit (1023, 1024, 1025); byte equality of deterministic writes over every insertion order",
         "bounded-exhaustive: every store of the enumerated families is written by SimpleColumn.WriteTo and read back by ReadInto (3 store kinds) and SimpleColumnStore (full scan, counts, Contains, every pattern over the columns' constants) and compared as sets with the original",
         "printable constants only (C09 alphabet); hash-keyed target/source stores are used only for fact sets without Atom.Hash() collisions (their conflation is C06's known finding)", "4 C19"),
 "C16": ("operation-history search (E2, differential): every define/load/pop history up to depth d over a 27-command alphabet (incl. a lattice predicate whose rule improves an earlier fragment's facts and a file loadable any number of times) on a fresh real interpreter; after every command, outcome and all query answers are compared with a fresh interpreter that loads only the live fragments, and the facts of fact-only predicates with the union of the facts written in the live fragments",
         "bounded-exhaustive: every command history up to the depth bound is executed on the real interpreter; the reference is the same implementation started fresh on the live fragments implied by the documented stack discipline, so no expected values are hand-written",
         "definitions are issued as Loop issues them through a 6-line method added to package interpreter by go build -overlay (mc/seam/interp_hook.go); the stack discipline (load pops interactive definitions first) is taken from the documentation", "4 C16"),
 "C17": ("small-scope enumeration in killable workers (E1): 23 diverging/converging program shapes and their pairs x seeds x every limit in {1..12,16,32,100} x store kinds, 11 shapes over a 60-fact relation, shapes whose budget is used up by an earlier stratum or by program facts before a large join, a second evaluation of the same store (retry after a limit error, more base facts), programs over an external relation against their unlimited evaluation, real engine with WithCreatedFactLimit compared with a capped reference evaluation",
         "bounded-exhaustive: every (program, seed, limit, store) in scope is run in a worker process (ulimit -v, 60 s deadline, re-run twice before 'did not return' is believed): returns; growth bounded; nil error => complete model; infinite model => error",
         "convergence decided by the reference evaluator with caps; growth bound instantiated as 4*(L+1)*(rules+1)+8; errors on converging programs (limit or join width exceeded) are correct behaviour", "4 C17"),
 "C10": ("exhaustive enumeration of short token strings and of all single-edit neighbours of a corpus, in killable workers (E1): every input is offered to the parser entry points / escape decoder / fact-file readers; units that parse go through AnalyzeAndCheckBounds and EvalProgram under a fact limit; plus full grids over declarations, built-in functions/predicates with every short argument list, type constructors (argument lists up to length 6 for the variadic ones), every ordered pair of 115 types joined/copied/united by rules, built-ins over mixed-type literals, extreme literals and merge descriptors",
         "bounded-exhaustive within token-string length k and edit distance 1 of 19 sources and 6 fact files: each step must return a value or an error; panics are caught per input, hangs by a per-input watchdog in a worker process",
         "not coverage-guided fuzzing: long adversarial inputs are outside the bound; header counts near 2^32 (huge allocation) are noted, not executed", "4 C10"),
 "C14": ("small-scope enumeration (E1): every set of <=2 intervals on a 7-point timeline x the four operators x all bound pairs x every evaluation time, on five placements of the timeline (1 s ticks in UTC and +05:30; 12 h ticks across both daylight-saving transitions with the evaluation time in America/New_York and UTC); variable and head annotations, chains; every ordered interval pair x 9 relations; real engine compared with own interval arithmetic",
         "bounded-exhaustive: every (fact set, program, evaluation time) in scope is evaluated on the real engine against a coalesced TemporalStore and the derived facts / stored intervals compared exactly with the pointwise meaning",
         "windows written with the larger offset first are undocumented and not judged; stored intervals for annotation enumeration are read from the coalesced store (subject of C13)", "4 C14"),
 "C11": ("small-scope program enumeration (E1): every pair of bound declarations over a type alphabet x 44 rule shapes (incl. inequalities, list constructors over different element types, reducers with several arguments) x fact sets admitted by the declaration and every universe constant as a program-text fact, through AnalyzeAndCheckBounds(ErrorForBoundsMismatch) and evaluation; every stored fact re-checked with the library's run-time type check",
         "bounded-exhaustive: every (declarations, rule, facts) combination in scope that analysis accepts is evaluated and every fact of the declared predicates must pass builtin.TypeChecker.CheckTypeBounds",
         "membership is the library's own HasType; violations explained by the recorded map-key-variance / struct-width inconsistencies (C12) or by uninstantiated type variables of :match_pair/:match_cons are known findings", "4 C11"),
 "C15": ("small-scope program enumeration (E1): every <=k-rule program of pools G,R,N,B x EDBs; every stored fact is explained post-hoc and from a recording; every proof validated by an independent proof checker; identifier/content bijection; recorder on/off store equality",
         "bounded-exhaustive: for every program/EDB in scope and EVERY fact of the evaluated store, the returned proofs are re-checked literal by literal (head and body re-instantiated from the reported bindings, leaves against store and base facts, no fact its own ancestor) and a complete proof is demanded for transform-free programs",
         "independent checker in verifmc; missing/partial proofs for goals that depend on recursive predicates are the known finding F9 (memoisation under a cycle cut) and attributed only then", "4 C15"),
 "C05": ("exhaustive enumeration of presentations (E1) of each base program: clause orders, fact orders, variable and predicate renamings, package wrapping, store kinds, deterministic-order option; differential comparison of canonical results; plus environment-deviation exploration (E3) of hash-map iteration order: every range-over-map of the repository is rewritten at build time (overlay generated from the working tree) to iterate in an order the explorer chooses - 4 global modes and every single-point deviation are executed",
         "bounded-exhaustive over the presentation dimensions for ~1400 (quick) base programs from pools G, N, A and temporal chains: every variant is evaluated by the real pipeline and must give the reference variant's canonical fact set (temporal facts with intervals)",
         "map iteration order is explorer-owned in the vmap build (bin/mcv): default answer = keys sorted by printed form, deviations = reversed / rotated orders globally and at each single dynamic range execution; two simultaneous deviations are not explored; order-sensitive reducers are excluded; collected lists compared as multisets", "4 C05"),
 "C18": ("controlled-scheduler interleaving search (E4): the real ConcurrentFactStore over a stepped base under a cooperative scheduler injected by rewriting package sync at build time; every schedule up to a preemption bound, each history checked for linearizability by brute force and each execution for mutual exclusion inside the wrapped (not thread-safe) store by an oracle in the stepped base; sync.Pool answers and parallel pipelines explored the same way; plus an auxiliary free-running -race pass",
         "bounded-exhaustive over schedules: 2 threads x 1-2 operations and 3 threads x 1 operation (10 operations incl. ListPredicates and a merge out of the store) x initial states, all interleavings of lock operations and base-store steps with <= 2 preemptions (unbounded for 2 threads in thorough); deadlock = no enabled thread; every recorded history must have a linearization against a set model",
         "scheduling points are the sync shim's operations plus explicit steps of the harness's base store; data races are outside what a cooperative scheduler can see and are covered by a separate sampled `go test -race` pass (listed separately in the evidence)", "4 C18"),
}
NOT_APPLICABLE = {
}
props = [json.loads(l) for l in open(os.path.join(V, "properties.jsonl"))]
checks = []
for p in props:
    pid = p["id"]
    if pid not in CHECKS:
        continue
    tech, text, note, ref = CHECKS[pid]
    checks.append({
        "property_id": pid,
        "quick_cmd": f"./check {pid} quick",
        "thorough_cmd": f"./check {pid} thorough",
        "evidence_file": f"/verif/evidence/{pid}.json",
        "replay_cmd_template": f"./check {pid} replay {{path}}",
        "engine": "mc",
        "level_claimed": {"category": "model_checking", "text": text, "design_ref": "DESIGN.md §" + ref},
        "level_note": note,
        "technique": tech,
    })
na = [{"property_id": p["id"], "reason": NOT_APPLICABLE.get(p["id"], "check not built yet in this session (work in progress; see DESIGN.md §4 for the planned exploration)")}
      for p in props if p["id"] not in CHECKS]
m = {
 "version": 1,
 "setup_cmd": "./check setup",
 "hooks": {
  "guard": "verif-overlay: no source change is committed to /repo; instrumentation is applied at build time through go build -overlay: mc/seam/interp_hook.go is ADDED to package interpreter (all checks); for C18 only, the import of package sync in factstore/factstore.go, parse/parse.go and ast/temporal.go is rewritten (from the current working-tree files) to the shim mc/seam/vsync, which behaves exactly like sync when no scheduler is active; for C05 only (build tag vmap), cmd/overlaygen rewrites every `range m` over a map in non-test repository files to `range vmap.Range(m)` (mc/seam/vmap), which yields the same key/value pairs in an explorer-chosen order",
  "enable": "./check builds /verif/mc against /repo's working tree via a go.mod replace directive with -overlay mc/overlay.json (C18: -tags vsync -overlay mc/overlay18.json; C05: -tags vmap -overlay mc/overlayv.json), all generated by ./check from the working tree",
  "baseline_off_cmd": "cd /repo && GOFLAGS=-mod=mod go test -json -vet=off -count=1 -timeout 25m ./...",
  "source_commits": [],
  "add_only": True,
 },
 "engines": [{"name": "mc", "path": "/verif/mc", "serves_properties": sorted(CHECKS), "kind_free_text": "hand-written bounded-exhaustive explorers in Go driving the real library (small-scope input enumeration, operation-history search, environment-deviation exploration, controlled-scheduler interleaving search) against reference models"}],
 "checks": checks,
 "not_applicable": na,
 "notes": "All checks rebuild from /repo's working tree on every invocation (go build with replace => /repo). Known genuine defects are listed in /verif/KNOWN_FINDINGS.json.",
}
json.dump(m, open(os.path.join(V, "MANIFEST.json"), "w"), indent=1)
print("checks:", len(checks), "not_applicable:", len(na))
