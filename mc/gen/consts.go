package gen

import (
	"math"

	"codeberg.org/TauCeti/mangle-go/ast"
)

// Named is a constant with the way it was built.
type Named struct {
	C    ast.Constant
	How  string // construction description
	Leaf bool
}

func name(s string) ast.Constant {
	c, err := ast.Name(s)
	if err != nil {
		panic(err)
	}
	return c
}

// Leaves returns the leaf constants of the universe.
func Leaves(thorough bool) []Named {
	var out []Named
	add := func(c ast.Constant, how string) { out = append(out, Named{c, how, true}) }
	for _, s := range []string{"/a", "/b", "/a/b"} {
		add(name(s), "name "+s)
	}
	for _, s := range []string{"", "a", "1", "/a", "[]", "\ufffd", "x\ufffd"} {
		add(ast.String(s), "string "+s)
	}
	for _, b := range [][]byte{{}, {'a'}, {0xff}} {
		add(ast.Bytes(b), "bytes")
	}
	for _, n := range []int64{-1, 0, 1, 65792} {
		add(ast.Number(n), "number")
	}
	for _, f := range []float64{-1.5, 0, 1, 1.5, math.Copysign(0, -1), 1e21, 5e-324} {
		add(ast.Float64(f), "float")
	}
	for _, t := range []int64{0, 1, 1000000000} {
		add(ast.Time(t), "time")
	}
	for _, d := range []int64{0, 1, -1, 1000000000} {
		add(ast.Duration(d), "duration")
	}
	if thorough {
		add(name("/ab"), "name /ab")
		add(ast.String("a\"b"), "string with quote")
		add(ast.String("é"), "string non-ascii")
		add(ast.Number(math.MinInt64), "number min")
		add(ast.Number(math.MaxInt64), "number max")
		add(ast.Float64(math.MaxFloat64), "float max")
		add(ast.Float64(1e-7), "float small")
		add(ast.Time(-1), "time -1")
	}
	return out
}

// Structured builds one level of pair/list/map/struct constants over elems, through the public
// constructors. Map and Struct go through ast.Map/ast.Struct (Go-map argument).
func Structured(elems []ast.Constant, structKeys []ast.Constant) []Named {
	var out []Named
	add := func(c ast.Constant, how string) { out = append(out, Named{c, how, false}) }
	add(ast.ListNil, "empty list")
	add(ast.MapNil, "empty map")
	add(ast.StructNil, "empty struct")
	for i := range elems {
		a := elems[i]
		add(ast.List([]ast.Constant{a}), "list1")
		for j := range elems {
			b := elems[j]
			add(ast.Pair(&a, &b), "pair")
			add(ast.List([]ast.Constant{a, b}), "list2")
			add(*ast.Map(map[*ast.Constant]*ast.Constant{&a: &b}), "map1")
		}
	}
	// two-entry maps over a few keys, both insertion "orders" are the same Go map; permutations are
	// exercised through fn:map in the checks
	for i := range elems {
		for j := range elems {
			if i >= j {
				continue
			}
			k1, k2 := elems[i], elems[j]
			v1, v2 := elems[(i+1)%len(elems)], elems[(j+2)%len(elems)]
			add(*ast.Map(map[*ast.Constant]*ast.Constant{&k1: &v1, &k2: &v2}), "map2")
		}
	}
	for i := range structKeys {
		k1 := structKeys[i]
		for vi := range elems {
			v := elems[vi]
			add(*ast.Struct(map[*ast.Constant]*ast.Constant{&k1: &v}), "struct1")
		}
		for j := range structKeys {
			if i >= j {
				continue
			}
			k2 := structKeys[j]
			v1, v2 := elems[i%len(elems)], elems[(j+3)%len(elems)]
			add(*ast.Struct(map[*ast.Constant]*ast.Constant{&k1: &v1, &k2: &v2}), "struct2")
		}
	}
	return out
}

// Universe builds leaves + one level of structure + a second level over a sub-alphabet.
func Universe(thorough bool) []Named {
	leaves := Leaves(thorough)
	var lc []ast.Constant
	for _, l := range leaves {
		lc = append(lc, l.C)
	}
	// first level over a 12-leaf sub-alphabet (one or two of each kind)
	pick := func(idx ...int) []ast.Constant {
		var o []ast.Constant
		for _, i := range idx {
			o = append(o, lc[i])
		}
		return o
	}
	sub := pick(0, 2, 3, 4, 5, 8, 11, 13, 14, 15, 16, 18, 19, 24, 27)
	if thorough {
		sub = lc
	}
	skeys := []ast.Constant{name("/a"), name("/b"), name("/a/b")}
	out := append([]Named{}, leaves...)
	l1 := Structured(sub, skeys)
	out = append(out, l1...)
	// second level over a small sub-alphabet of first-level values
	one := ast.Number(1)
	a := name("/a")
	l2elems := []ast.Constant{one, a, ast.List([]ast.Constant{one}), ast.Pair(&one, &a), ast.Number(65792), ast.ListNil,
		*ast.Map(map[*ast.Constant]*ast.Constant{&one: &a}), *ast.Struct(map[*ast.Constant]*ast.Constant{&a: &one})}
	out = append(out, Structured(l2elems, skeys)...)
	return out
}
