// Package gen holds the finite grammars (pools) from which programs are enumerated.
package gen

import (
	"fmt"
	"sort"
	"strings"
)

// Pool is a finite set of candidate rules plus a family of EDBs.
type Pool struct {
	Name  string
	Decls string     // declarations for the EDB predicates (so that bodies may mention them)
	Rules []string   // source text of each rule
	EDBs  [][]string // each EDB: list of ground atoms as source text (no trailing dot)
	Tags  []string   // optional per-rule tag ("rec" marks recursive-capable shapes)
}

// Program is one enumerated program of a pool.
type Program struct {
	Pool  *Pool
	Rules []int // indexes into Pool.Rules, ascending
}

// Source renders the program (declarations + rules).
func (p Program) Source() string {
	var sb strings.Builder
	sb.WriteString(p.Pool.Decls)
	for _, i := range p.Rules {
		sb.WriteString(p.Pool.Rules[i])
		sb.WriteString("\n")
	}
	return sb.String()
}

// RuleText renders just the rules.
func (p Program) RuleText() string {
	var out []string
	for _, i := range p.Rules {
		out = append(out, p.Pool.Rules[i])
	}
	return strings.Join(out, " ")
}

// Subsets enumerates all index subsets of size 1..maxK of [0,n), smallest first; if must is
// non-empty every subset contains those indexes (and size counts the extra ones).
func Subsets(n, maxK int, must []int) [][]int {
	var out [][]int
	mustSet := map[int]bool{}
	for _, m := range must {
		mustSet[m] = true
	}
	var free []int
	for i := 0; i < n; i++ {
		if !mustSet[i] {
			free = append(free, i)
		}
	}
	start := 1
	if len(must) > 0 {
		start = 0
	}
	for k := start; k <= maxK; k++ {
		idx := make([]int, k)
		var rec func(pos, from int)
		rec = func(pos, from int) {
			if pos == k {
				s := append([]int{}, must...)
				for _, i := range idx {
					s = append(s, free[i])
				}
				sort.Ints(s)
				out = append(out, s)
				return
			}
			for i := from; i < len(free); i++ {
				idx[pos] = i
				rec(pos+1, i+1)
			}
		}
		rec(0, 0)
	}
	return out
}

// Digraphs enumerates all edge sets over nodes 1..n with at most maxEdges edges, as atoms pred(a,b).
func Digraphs(pred string, n, maxEdges int) [][]string {
	var pairs [][2]int
	for a := 1; a <= n; a++ {
		for b := 1; b <= n; b++ {
			pairs = append(pairs, [2]int{a, b})
		}
	}
	var out [][]string
	total := 1 << len(pairs)
	for m := 0; m < total; m++ {
		cnt := 0
		for x := m; x != 0; x &= x - 1 {
			cnt++
		}
		if cnt > maxEdges {
			continue
		}
		var g []string
		for i, p := range pairs {
			if m&(1<<i) != 0 {
				g = append(g, fmt.Sprintf("%s(%d,%d)", pred, p[0], p[1]))
			}
		}
		out = append(out, g)
	}
	sort.SliceStable(out, func(i, j int) bool { return len(out[i]) < len(out[j]) })
	return out
}

// PoolG: graph programs over e/2 with IDB p/2, q/2.
func PoolG(maxEdges int) *Pool {
	p := &Pool{Name: "G", Decls: "Decl e(A,B).\n"}
	preds := []string{"e", "p", "q"}
	for _, h := range []string{"p", "q"} {
		add := func(body string, rec bool) {
			p.Rules = append(p.Rules, fmt.Sprintf("%s(X,Y) :- %s.", h, body))
			t := ""
			if rec {
				t = "rec"
			}
			p.Tags = append(p.Tags, t)
		}
		for _, a := range preds {
			add(a+"(X,Y)", a != "e")
			add(a+"(Y,X)", a != "e")
		}
		for _, a := range preds {
			for _, b := range preds {
				rec := a != "e" || b != "e"
				add(a+"(X,Z), "+b+"(Z,Y)", rec)
				add(a+"(Z,X), "+b+"(Z,Y)", rec)
				add(a+"(X,Y), "+b+"(Y,X)", rec)
			}
		}
		add("e(X,Y), X != Y", false)
		add("e(X,Z), "+h+"(Z,Y), X != Y", true)
		add("p(X,Z), q(Z,Y), X != Z", true)
	}
	p.EDBs = Digraphs("e", 3, maxEdges)
	return p
}

// PoolR: unary predicates l, r, m over chain-like s/2 and feedback t/2; exercises facts that
// are first derived in the same later round.
func PoolR() *Pool {
	p := &Pool{Name: "R", Decls: "Decl s(A,B).\nDecl t(A,B).\nDecl l0(A).\nDecl r0(A).\n"}
	// seeds come in through l0/r0 so that l, r, m are purely intensional
	p.Rules = append(p.Rules, "l(X) :- l0(X).", "r(X) :- r0(X).")
	p.Tags = append(p.Tags, "", "")
	ps := []string{"l", "r", "m"}
	for _, h := range ps {
		for _, a := range ps {
			p.Rules = append(p.Rules, fmt.Sprintf("%s(Y) :- %s(X), s(X,Y).", h, a))
			p.Tags = append(p.Tags, "rec")
			p.Rules = append(p.Rules, fmt.Sprintf("%s(Y) :- %s(X), t(X,Y).", h, a))
			p.Tags = append(p.Tags, "rec")
			if a != h {
				p.Rules = append(p.Rules, fmt.Sprintf("%s(Y) :- %s(Y).", h, a))
				p.Tags = append(p.Tags, "rec")
			}
		}
		for _, ab := range [][2]string{{"l", "r"}, {"l", "m"}, {"r", "m"}} {
			p.Rules = append(p.Rules, fmt.Sprintf("%s(Y) :- %s(Y), %s(Y).", h, ab[0], ab[1]))
			p.Tags = append(p.Tags, "rec")
		}
	}
	chain := []string{"s(0,1)", "s(1,2)", "s(2,3)", "s(3,4)"}
	seeds := []string{"l0(0)", "r0(0)"}
	mk := func(extra ...string) []string {
		return append(append(append([]string{}, chain...), seeds...), extra...)
	}
	p.EDBs = [][]string{
		mk("t(9,9)"),
		mk("t(4,0)"),
		mk("t(2,0)", "s(4,5)"),
		mk("s(1,3)", "t(3,1)"),
		{"s(0,1)", "s(1,2)", "s(2,0)", "l0(0)", "r0(1)", "t(0,2)"},
		{"s(0,1)", "s(0,2)", "s(1,3)", "s(2,3)", "s(3,4)", "l0(0)", "r0(0)", "t(4,4)"},
		{"s(0,1)", "s(1,2)", "l0(0)", "r0(2)", "t(2,0)", "t(0,0)"},
		{"l0(0)", "r0(0)"},
	}
	return p
}

// PoolN: negation over e/2, u/1 with IDB p/2, q/2, w/1.
func PoolN() *Pool {
	p := &Pool{Name: "N", Decls: "Decl e(A,B).\nDecl u(A).\nDecl v(A).\n"}
	add := func(s string) { p.Rules = append(p.Rules, s); p.Tags = append(p.Tags, "") }
	add("p(X,Y) :- e(X,Y).")
	add("p(X,Y) :- e(X,Z), p(Z,Y).")
	add("p(X,Y) :- e(Y,X).")
	add("q(X,Y) :- e(X,Y), !e(Y,X).")
	add("q(X,Y) :- p(X,Y), !e(X,Y).")
	add("q(X,Y) :- e(X,Y), !u(X).")
	add("q(X,Y) :- e(X,Y), !u(Y).")
	add("q(X,Y) :- !u(X), e(X,Y).")
	add("q(X,Y) :- e(X,Y), !p(Y,X).")
	add("q(X,Y) :- p(X,Y), !p(Y,X).")
	add("q(X,Y) :- p(X,Z), p(Z,Y), !p(X,Y).")
	add("q(X,Y) :- e(X,Y), !e(Y,_).")
	add("q(X,Y) :- e(X,Y), !e(_,X).")
	add("q(X,Y) :- e(X,Y), !p(Y,_).")
	add("q(X,Y) :- q(X,Z), e(Z,Y).")
	add("w(X) :- u(X), !e(X,X).")
	add("w(X) :- u(X), !p(X,_).")
	add("w(X) :- u(X), !q(X,_).")
	add("w(X) :- e(X,_), !u(X).")
	add("w(X) :- e(X,_), !q(_,X).")
	add("w(X) :- e(X,Y), !w2(Y).")
	add("w2(X) :- u(X), !p(X,X).")
	add("w2(X) :- e(_,X), !u(X).")
	add("q(X,Y) :- !u(X), !v(Y), e(X,Z), e(Z,Y).")
	add("q(X,Y) :- !v(Y), !u(X), e(X,Z), e(Z,Y).")
	add("q(X,Y) :- !u(X), !e(Y,X), e(X,_), e(_,Y).")
	graphs := Digraphs("e", 3, 3)
	var edbs [][]string
	for gi, g := range graphs {
		for um := 0; um < 8; um++ {
			if (gi+um)%4 != 0 && len(g) > 1 { // thin out: keep every EDB with <=1 edge, a quarter of the rest
				continue
			}
			e := append([]string{}, g...)
			for i := 1; i <= 3; i++ {
				if um&(1<<(i-1)) != 0 {
					e = append(e, fmt.Sprintf("u(%d)", i))
				}
				if (um>>1|gi)&(1<<(i-1)) != 0 {
					e = append(e, fmt.Sprintf("v(%d)", i))
				}
			}
			edbs = append(edbs, e)
		}
	}
	p.EDBs = edbs
	return p
}

// PoolM: "mixed" predicates - predicates that have inline facts in the program text AND rules, with
// facts placed both before and after the rules (programs render their clauses in pool order), used
// positively, negated and recursively by other rules.
func PoolM() *Pool {
	p := &Pool{Name: "M", Decls: "Decl e(A,B).\n"}
	add := func(s string) { p.Rules = append(p.Rules, s); p.Tags = append(p.Tags, "") }
	add("p(7,8).")
	add("w(7).")
	add("p(X,Y) :- e(X,Y).")
	add("p(X,Z) :- p(X,Y), p(Y,Z).")
	add("q(X,Y) :- p(X,Y).")
	add("q(X,Y) :- p(Y,X), !w(X).")
	add("w(X) :- e(X,_).")
	add("w(X) :- p(_,X), !e(X,X).")
	add("q(X,X) :- e(X,_), !p(X,X).")
	add("v(X) :- w(X), !q(X,X).")
	add("v(X) :- p(X,_), !w(X).")
	add("p(8,9).")
	add("w(8).")
	add("q(7,7).")
	add("p(1,7).")
	p.EDBs = append(Digraphs("e", 3, 2), []string{"e(1,2)", "e(2,3)", "e(3,1)"}, []string{"e(1,1)", "e(1,2)", "e(2,7)", "e(8,3)"})
	return p
}

// PoolL: long rule bodies (4 to 8 literals), with several matches for the later literals, negation in
// the middle and at the end, and recursion through a long body.
func PoolL() *Pool {
	p := &Pool{Name: "L", Decls: "Decl e(A,B).\nDecl u(A).\n"}
	add := func(s string) { p.Rules = append(p.Rules, s); p.Tags = append(p.Tags, "") }
	add("t(X,D) :- e(X,A), e(A,B), e(B,C), e(C,D).")
	add("t(X,C) :- u(X), e(X,A), e(A,B), e(B,C), !u(C).")
	add("t(X,B) :- e(X,A), !u(A), e(A,B), !u(B), e(B,_).")
	add("s(X,F) :- e(X,A), e(A,B), e(B,C), e(C,D), e(D,E), e(E,F).")
	add("s(X,G) :- e(X,A), e(A,B), e(B,C), e(C,D), e(D,E), e(E,F), e(F,G), !u(G).")
	add("t(X,D) :- t(X,A), e(A,B), e(B,C), t(C,D).")
	add("w(X) :- t(X,A), t(A,B), s(B,C), e(C,X).")
	add("w(X) :- u(X), e(X,A), A != X, e(A,B), B != X, e(B,_).")
	p.EDBs = [][]string{
		{"e(1,1)", "e(1,2)", "e(2,1)", "e(2,2)", "u(1)"},
		{"e(1,2)", "e(2,3)", "e(3,1)", "e(3,3)", "u(1)", "u(3)"},
		{"e(1,2)", "e(1,3)", "e(2,1)", "e(3,1)", "u(2)"},
		{"e(1,2)", "e(2,3)", "u(1)"},
		{"e(1,1)", "u(1)"},
		{},
	}
	return p
}

// PoolS: structured values (lists, pairs, maps, structs) that are built by rules and meet equal values that
// were constructed separately (stored base facts, literals in the rule text) in every unification position:
// join variables, negated atoms, equalities and inequalities, repeated variables, constructor patterns.
func PoolS() *Pool {
	p := &Pool{Name: "S", Decls: "Decl sv(A).\nDecl sw(A,B).\nDecl n(A).\n"}
	add := func(s string) { p.Rules = append(p.Rules, s); p.Tags = append(p.Tags, "") }
	add("c(P) :- n(X), n(Y), P = [X, Y].")
	add("c(P) :- n(X), n(Y), P = fn:pair(X, Y).")
	add("c(P) :- n(X), P = fn:list:cons(X, [2]).")
	add("c(P) :- n(X), P = {/a: X}.")
	add("j(P) :- c(P), sv(P).")
	add("j(P) :- sv(P), c(P).")
	add("k(P) :- sv(P), !c(P).")
	add("k(P) :- c(P), !sv(P).")
	add("d(P,Q) :- sw(P,Q), P = Q.")
	add("d(P,Q) :- sw(P,Q), P != Q.")
	add("r(P) :- sw(P,P).")
	add("l(X) :- n(X), sv([X, 2]).")
	add("l(X) :- n(X), sw([1, X], _).")
	add("m(P) :- sv(P), P = [1, 2].")
	add("m(P) :- sv(P), P = {/a: 1}.")
	add("m(P) :- sv(P), :match_pair(P, 1, 2).")
	add("t(P) :- c(P), P = Q, sv(Q).")
	add("g(L) :- n(X), L = [X].")
	add("g(L) :- g(T), N = fn:list:len(T), N < 2, n(X), L = fn:list:cons(X, T).")
	add("h(L) :- g(L), sv(L).")
	add("h(L) :- sv(L), !g(L).")
	p.EDBs = [][]string{
		{"sv([1, 2])", "sv(fn:pair(1, 2))", "sv([1])", "sw([1, 2], [1, 2])", "sw(fn:pair(1, 2), [1, 2])", "n(1)", "n(2)"},
		{"sv({/a: 1})", "sv([1: 2])", "sv({/a: 2})", "sw({/a: 1}, {/a: 1})", "sw([1: 2], [2: 1])", "n(1)"},
		{"sv([])", "sv([[1]])", "sv([2, 2])", "sv([2, 1])", "sw([[1]], [[1]])", "sw([1, 2], [2, 1])", "n(2)", "n(1)"},
		{"n(1)", "n(2)"},
		{"sv([1, 2])", "sv(fn:pair(2, 2))", "sw([2, 2], [2, 2])", "n(2)"},
	}
	return p
}

// IsFact reports whether a pool clause is a fact (no body).
func IsFact(clause string) bool { return !strings.Contains(clause, ":-") }

// PoolB: built-in comparisons, equalities, arithmetic, structured data, let-transforms over n/1.
func PoolB() *Pool {
	p := &Pool{Name: "B", Decls: "Decl n(A).\nDecl k(A,B).\n"}
	add := func(s string) { p.Rules = append(p.Rules, s); p.Tags = append(p.Tags, "") }
	add("a(X) :- n(X), X < 2.")
	add("a(X) :- n(X), X <= 2.")
	add("a(X) :- n(X), X > 1.")
	add("a(X) :- n(X), X >= 1.")
	add("a(X) :- n(X), :lt(X, 3), :gt(X, 0).")
	add("b(X,Y) :- n(X), n(Y), X < Y.")
	add("b(X,Y) :- n(X), n(Y), X <= Y, X != Y.")
	add("b(X,Y) :- n(X), n(Y), Y > X.")
	add("b(X,Y) :- n(X), Y = X.")
	add("b(X,Y) :- n(X), X = Y.")
	add("b(X,Y) :- n(X), n(Y), X = Y.")
	add("b(X,Y) :- n(X), n(Y), X != Y.")
	add("b(X,Y) :- n(X), Y = fn:plus(X, 1).")
	add("b(X,Y) :- n(X), fn:plus(X, 1) = Y.")
	add("b(X,Y) :- n(X), n(Y), Y = fn:plus(X, 1).")
	add("b(X,Y) :- n(X), Y = fn:mult(X, X).")
	add("b(X,Y) :- n(X), Y = fn:minus(X, 1).")
	add("b(X,Y) :- n(X), Y = fn:plus(X, 1), Y < 3.")
	add("b(X,Y) :- n(X) |> let Y = fn:plus(X, 2).")
	add("b(X,Y) :- n(X), n(Z), X < Z |> let Y = fn:plus(X, Z).")
	add("b(X,Y) :- a(X), n(Y), X != Y.")
	add("c(P) :- n(X), n(Y), X < Y, P = fn:pair(X, Y).")
	add("c(P) :- b(X,Y), P = fn:pair(X, Y).")
	add("c(P) :- n(X), P = fn:list(X, X).")
	add("c(P) :- n(X), n(Y), P = fn:list(X, Y), X != Y.")
	add("c(P) :- n(X) |> let P = fn:pair(X, X).")
	add("d(X,Y) :- c(P), :match_pair(P, X, Y).")
	add("d(X,Y) :- c(P), :match_cons(P, X, T), :match_cons(T, Y, _).")
	add("d(X,Y) :- c(P), :match_cons(P, X, T), :list:member(Y, T).")
	add("d(X,Y) :- n(X), :list:member(Y, [0, 2, 5]), X < Y.")
	add("d(X,Y) :- n(X), n(Y), :list:member(X, [Y, 1]).")
	add("d(X,Y) :- k(X,Y), X = 1.")
	add("d(X,Y) :- k(X,Y), 1 = X.")
	add("d(X,Y) :- k(X,Y), X != 1, Y != X.")
	add("d(X,Y) :- k(X,Y), k(Y,X).")
	add("d(X,Y) :- k(X,Z), Y = fn:plus(Z, X), n(Y).")
	add("hf(fn:plus(X, 1)) :- n(X).")
	add("hf(fn:pair(X, Y)) :- k(X,Y), X != Y.")
	// a function application in the head of a rule that also has a transform
	add("hl(fn:plus(X, 1), D) :- n(X) |> let D = fn:mult(X, 2).")
	add("hl(fn:pair(X, D), D) :- n(X), X > 0 |> let D = fn:plus(X, 1).")
	add("hd(fn:plus(X, 1), C) :- k(X,Y) |> do fn:group_by(X), let C = fn:count().")
	// a predicate defined by an aggregating rule and by a plain rule that mentions it: aggregated facts feed the recursion
	add("ag(X,N) :- k(X,Y) |> do fn:group_by(X), let N = fn:count().")
	add("ag(Y,N) :- ag(X,N), k(X,Y).")
	add("agq(X) :- ag(X,_), n(X).")
	add("hd(fn:pair(X, C), C) :- k(X,Y) |> do fn:group_by(X), let C = fn:sum(Y).")
	add("e2(X) :- n(X), Y = fn:plus(X, 1), n(Y).")
	add("e2(X) :- n(X), Y = fn:minus(X, 1), !n(Y).")
	add("e3(X,Z) :- k(X,Y), W = fn:plus(Y, 1), k(W,Z).")
	// a variable unified with another variable before anything binds either, read only by a let-transform
	add("ls(Z) :- W = X, n(X) |> let Z = fn:plus(W, 2).")
	add("ls(Z) :- W = X, V = W, n(X) |> let Z = fn:plus(V, 2).")
	add("ls(Z) :- W = X, k(X,Y), V = Y |> let Z = fn:pair(W, V).")
	add("ls(Z) :- n(X), W = X |> let Z = fn:plus(W, 2).")
	add("ls(Z) :- ls(X), W = X, n(X) |> let Z = fn:plus(W, 1).")
	add("g(Y) :- n(X), Y = fn:plus(X, 1), Y < 4.")
	add("g(Y) :- g(X), Y = fn:plus(X, 1), Y < 6.")
	add("g(Y) :- g(X), n(X) |> let Y = fn:mult(X, 2).")
	var edbs [][]string
	for m := 0; m < 16; m++ {
		var e []string
		for i := 0; i < 4; i++ {
			if m&(1<<i) != 0 {
				e = append(e, fmt.Sprintf("n(%d)", i))
			}
		}
		switch m % 4 {
		case 1:
			e = append(e, "k(1,2)", "k(2,1)")
		case 2:
			e = append(e, "k(1,1)", "k(0,3)", "k(2,1)")
		case 3:
			e = append(e, "k(1,0)", "k(0,1)", "k(3,3)")
		}
		edbs = append(edbs, e)
	}
	p.EDBs = edbs
	return p
}

// PoolA: aggregation rules over p/2, q/1 (and t/2 = transitive closure of p).
type AggRule struct {
	Text  string
	Head  string // "h2x", "h2y", "g1"
	UsesT bool
}

// AggRules enumerates aggregating rules; reducers limits the reducer alphabet.
func AggRules(reducers []string) []AggRule {
	bodies := []struct {
		b     string
		usesT bool
		hasY  bool
	}{
		{"p(X,Y)", false, true},
		{"p(X,Y), q(X)", false, true},
		{"p(X,Y), q(Y)", false, true},
		{"q(X), p(X,Y)", false, true},
		{"p(X,Y), X < Y", false, true},
		{"p(X,Y), p(Y,Z)", false, true},
		{"t(X,Y)", true, true},
		{"t(X,Y), q(Y)", true, true},
		{"p(X,X)", false, false},
		{"p(X,Y), p(Y,X)", false, true},
		// the aggregated value is bound by an equality, written in either direction
		{"p(X,W), Y = fn:plus(W, 1)", false, true},
		{"p(X,W), fn:plus(W, 1) = Y", false, true},
		{"p(X,W), 7 = Y", false, true},
		{"p(X,W), W = Y", false, true},
		{"p(X,W), q(W), Y = W", false, true},
	}
	var out []AggRule
	for _, b := range bodies {
		for _, red := range reducers {
			arg := "Y"
			if !b.hasY {
				arg = "X"
			}
			r := red
			if red != "fn:count()" {
				r = strings.Replace(red, "(V)", "("+arg+")", 1)
			}
			out = append(out, AggRule{fmt.Sprintf("h(X,C) :- %s |> do fn:group_by(X), let C = %s.", b.b, r), "h2x", b.usesT})
			out = append(out, AggRule{fmt.Sprintf("g(C) :- %s |> do fn:group_by(), let C = %s.", b.b, r), "g1", b.usesT})
			if b.hasY && (red == "fn:count()" || red == "fn:sum(V)") {
				r2 := strings.Replace(red, "(V)", "(X)", 1)
				out = append(out, AggRule{fmt.Sprintf("k(Y,C) :- %s |> do fn:group_by(Y), let C = %s.", b.b, r2), "h2y", b.usesT})
			}
		}
	}
	return out
}

// AggEDBs: all p subsets of {1,2,3}^2 with at most maxP tuples x the given q sets.
func AggEDBs(maxP int, qsets [][]int) [][]string {
	var out [][]string
	for _, g := range Digraphs("p", 3, maxP) {
		for _, qs := range qsets {
			e := append([]string{}, g...)
			for _, q := range qs {
				e = append(e, fmt.Sprintf("q(%d)", q))
			}
			out = append(out, e)
		}
	}
	return out
}

// AggDecls are the declarations/support rules of pool A.
const AggDecls = "Decl p(A,B).\nDecl q(A).\n"

// AggTC is the transitive closure support program.
const AggTC = "t(X,Y) :- p(X,Y).\nt(X,Y) :- p(X,Z), t(Z,Y).\n"
