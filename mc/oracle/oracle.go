// Package oracle is the reference semantics: a deliberately boring, set-based,
// order-independent, stratified naive Datalog evaluator over parsed clauses as written.
// Identity of values is the canonical key computed here through the public accessors;
// Constant.Equals/Hash/String are never used.
package oracle

import (
	"errors"
	"fmt"
	"math"
	"sort"
	"strconv"
	"strings"

	"codeberg.org/TauCeti/mangle-go/ast"
)

// Key is the canonical structural key of a constant.
func Key(c ast.Constant) string {
	var sb strings.Builder
	writeKey(&sb, c)
	return sb.String()
}

func writeKey(sb *strings.Builder, c ast.Constant) {
	switch c.Type {
	case ast.NameType:
		s, _ := c.NameValue()
		sb.WriteString("N" + strconv.Quote(s))
	case ast.StringType:
		s, _ := c.StringValue()
		sb.WriteString("S" + strconv.Quote(s))
	case ast.BytesType:
		sb.WriteString("B" + strconv.Quote(c.Symbol))
	case ast.NumberType:
		n, _ := c.NumberValue()
		sb.WriteString("I" + strconv.FormatInt(n, 10))
	case ast.Float64Type:
		f, _ := c.Float64Value()
		sb.WriteString("F" + strconv.FormatUint(math.Float64bits(f), 16))
	case ast.TimeType:
		n, _ := c.TimeValue()
		sb.WriteString("T" + strconv.FormatInt(n, 10))
	case ast.DurationType:
		n, _ := c.DurationValue()
		sb.WriteString("D" + strconv.FormatInt(n, 10))
	case ast.PairShape:
		a, b, _ := c.PairValue()
		sb.WriteString("P(")
		writeKey(sb, a)
		sb.WriteString(",")
		writeKey(sb, b)
		sb.WriteString(")")
	case ast.ListShape:
		sb.WriteString("L[")
		c.ListValues(func(e ast.Constant) error { writeKey(sb, e); sb.WriteString(","); return nil }, func() error { return nil })
		sb.WriteString("]")
	case ast.MapShape, ast.StructShape:
		var ents []string
		cb := func(k, v ast.Constant) error { ents = append(ents, Key(k)+"="+Key(v)); return nil }
		if c.Type == ast.MapShape {
			c.MapValues(cb, func() error { return nil })
			sb.WriteString("M{")
		} else {
			c.StructValues(cb, func() error { return nil })
			sb.WriteString("R{")
		}
		sort.Strings(ents)
		sb.WriteString(strings.Join(ents, ";"))
		sb.WriteString("}")
	default:
		sb.WriteString("?")
	}
}

// PredKey names a predicate with its arity.
func PredKey(p ast.PredicateSym) string { return p.Symbol + "/" + strconv.Itoa(p.Arity) }

// Tuple is one fact.
type Tuple struct {
	Args []ast.Constant
	Key  string
}

// Rel is a set of tuples.
type Rel map[string]Tuple

// DB maps PredKey to relation.
type DB map[string]Rel

func tupleKey(args []ast.Constant) string {
	var sb strings.Builder
	for _, a := range args {
		writeKey(&sb, a)
		sb.WriteString(",")
	}
	return sb.String()
}

// Add inserts a tuple; reports whether it was new.
func (db DB) Add(pred string, args []ast.Constant) bool {
	r := db[pred]
	if r == nil {
		r = Rel{}
		db[pred] = r
	}
	k := tupleKey(args)
	if _, ok := r[k]; ok {
		return false
	}
	r[k] = Tuple{args, k}
	return true
}

// AddAtom inserts a ground atom (arguments must be constants).
func (db DB) AddAtom(a ast.Atom) (bool, error) {
	args := make([]ast.Constant, len(a.Args))
	for i, t := range a.Args {
		c, ok := t.(ast.Constant)
		if !ok {
			return false, fmt.Errorf("non-ground atom %v", a)
		}
		args[i] = c
	}
	return db.Add(PredKey(a.Predicate), args), nil
}

// Clone copies the database (tuples are shared, they are immutable).
func (db DB) Clone() DB {
	out := DB{}
	for p, r := range db {
		nr := make(Rel, len(r))
		for k, t := range r {
			nr[k] = t
		}
		out[p] = nr
	}
	return out
}

// Canon lists every fact as "pred/arity(key,...)" sorted.
func (db DB) Canon() []string {
	var out []string
	for p, r := range db {
		for k := range r {
			out = append(out, p+"("+k+")")
		}
	}
	sort.Strings(out)
	return out
}

// CanonPred lists the facts of one predicate.
func (db DB) CanonPred(p string) []string {
	var out []string
	for k := range db[p] {
		out = append(out, p+"("+k+")")
	}
	sort.Strings(out)
	return out
}

// Atoms rebuilds ast atoms for all facts.
func (db DB) Atoms() []ast.Atom {
	var out []ast.Atom
	for p, r := range db {
		i := strings.LastIndex(p, "/")
		ar, _ := strconv.Atoi(p[i+1:])
		sym := ast.PredicateSym{Symbol: p[:i], Arity: ar}
		for _, t := range r {
			args := make([]ast.BaseTerm, len(t.Args))
			for j, c := range t.Args {
				args[j] = c
			}
			out = append(out, ast.Atom{Predicate: sym, Args: args})
		}
	}
	return out
}

// Size is the number of facts.
func (db DB) Size() int {
	n := 0
	for _, r := range db {
		n += len(r)
	}
	return n
}

// AtomKeyOf gives the canonical key of a ground atom, comparable with Canon entries.
func AtomKeyOf(a ast.Atom) (string, error) {
	args := make([]ast.Constant, len(a.Args))
	for i, t := range a.Args {
		c, ok := t.(ast.Constant)
		if !ok {
			return "", fmt.Errorf("non-ground atom %v", a)
		}
		args[i] = c
	}
	return PredKey(a.Predicate) + "(" + tupleKey(args) + ")", nil
}

var (
	// ErrUnstratifiable: a negative or aggregating dependency lies on a cycle.
	ErrUnstratifiable = errors.New("oracle: not stratifiable")
	// ErrUnsafe: a clause body cannot be evaluated in any order.
	ErrUnsafe = errors.New("oracle: clause not evaluable (unsafe)")
	// ErrUnsupported: the clause uses something outside the reference fragment.
	ErrUnsupported = errors.New("oracle: outside reference fragment")
	// ErrDiverged: cap on rounds or facts reached.
	ErrDiverged = errors.New("oracle: cap reached (diverging)")
	// ErrEvalError: a function application failed (e.g. type error); pools avoid this.
	ErrEvalError = errors.New("oracle: evaluation error")
)

// Config bounds the evaluation.
type Config struct {
	MaxRounds int // per stratum; 0 = 10000
	MaxFacts  int // 0 = 1e6
}

// Result of a reference evaluation.
type Result struct {
	DB            DB
	Strata        int
	MaxRounds     int  // most rounds any stratum needed (the round that added nothing not counted)
	RecursiveSCC2 bool // some stratum has >= 2 mutually recursive predicates
	SameRoundJoin bool // some fact was derived from two IDB body facts first derived in the same round >= 2
	Stamp         map[string]int
}

type env map[string]ast.Constant

func (e env) with(v string, c ast.Constant) env {
	n := make(env, len(e)+1)
	for k, x := range e {
		n[k] = x
	}
	n[v] = c
	return n
}

type depEdge struct {
	to  string
	neg bool
}

func bodyPreds(c ast.Clause) (pos, neg []ast.PredicateSym) {
	agg := c.Transform != nil && !c.Transform.IsLetTransform()
	for _, p := range c.Premises {
		switch t := p.(type) {
		case ast.Atom:
			if t.Predicate.IsBuiltin() {
				continue
			}
			if agg {
				neg = append(neg, t.Predicate)
			} else {
				pos = append(pos, t.Predicate)
			}
		case ast.NegAtom:
			neg = append(neg, t.Atom.Predicate)
		case ast.TemporalLiteral:
			switch l := t.Literal.(type) {
			case ast.Atom:
				if agg {
					neg = append(neg, l.Predicate)
				} else {
					pos = append(pos, l.Predicate)
				}
			case ast.NegAtom:
				neg = append(neg, l.Atom.Predicate)
			}
		}
	}
	return
}

// Stratify computes strata (lists of PredKeys, dependencies first) for the rules, or
// ErrUnstratifiable.
func Stratify(rules []ast.Clause) ([][]string, error) {
	nodes := map[string]bool{}
	edges := map[string][]depEdge{}
	for _, c := range rules {
		h := PredKey(c.Head.Predicate)
		nodes[h] = true
		pos, neg := bodyPreds(c)
		for _, p := range pos {
			nodes[PredKey(p)] = true
			edges[h] = append(edges[h], depEdge{PredKey(p), false})
		}
		for _, p := range neg {
			nodes[PredKey(p)] = true
			edges[h] = append(edges[h], depEdge{PredKey(p), true})
		}
	}
	names := make([]string, 0, len(nodes))
	for n := range nodes {
		names = append(names, n)
	}
	sort.Strings(names)
	idx := map[string]int{}
	for i, n := range names {
		idx[n] = i
	}
	n := len(names)
	reach := make([][]bool, n)
	for i := range reach {
		reach[i] = make([]bool, n)
	}
	for h, es := range edges {
		for _, e := range es {
			reach[idx[h]][idx[e.to]] = true
		}
	}
	for k := 0; k < n; k++ {
		for i := 0; i < n; i++ {
			if reach[i][k] {
				for j := 0; j < n; j++ {
					if reach[k][j] {
						reach[i][j] = true
					}
				}
			}
		}
	}
	for h, es := range edges {
		for _, e := range es {
			if e.neg && (reach[idx[e.to]][idx[h]] || e.to == h) {
				return nil, ErrUnstratifiable
			}
		}
	}
	// components: mutually reachable
	comp := make([]int, n)
	for i := range comp {
		comp[i] = -1
	}
	var comps [][]int
	for i := 0; i < n; i++ {
		if comp[i] >= 0 {
			continue
		}
		c := len(comps)
		members := []int{i}
		comp[i] = c
		for j := i + 1; j < n; j++ {
			if comp[j] < 0 && reach[i][j] && reach[j][i] {
				comp[j] = c
				members = append(members, j)
			}
		}
		comps = append(comps, members)
	}
	// order components: dependencies first (repeated selection)
	done := make([]bool, len(comps))
	var out [][]string
	for len(out) < len(comps) {
		progress := false
		for ci, members := range comps {
			if done[ci] {
				continue
			}
			ready := true
			for _, m := range members {
				for j := 0; j < n; j++ {
					if reach[m][j] && comp[j] != ci && !done[comp[j]] {
						ready = false
					}
				}
			}
			if ready {
				var s []string
				for _, m := range members {
					s = append(s, names[m])
				}
				out = append(out, s)
				done[ci] = true
				progress = true
				break
			}
		}
		if !progress {
			return nil, fmt.Errorf("oracle: internal ordering error")
		}
	}
	return out, nil
}

// Eval computes the stratified least model of clauses (facts and rules as written) over edb.
func Eval(clauses []ast.Clause, edb []ast.Atom, cfg Config) (*Result, error) {
	if cfg.MaxRounds == 0 {
		cfg.MaxRounds = 10000
	}
	if cfg.MaxFacts == 0 {
		cfg.MaxFacts = 1000000
	}
	res := &Result{DB: DB{}, Stamp: map[string]int{}}
	for _, a := range edb {
		if _, err := res.DB.AddAtom(a); err != nil {
			return nil, err
		}
	}
	var rules []ast.Clause
	for _, c := range clauses {
		if len(c.Premises) == 0 && c.Transform == nil {
			// a fact, possibly with function expressions in arguments
			args := make([]ast.Constant, len(c.Head.Args))
			for i, t := range c.Head.Args {
				v, ok, err := evalTerm(t, env{})
				if err != nil {
					return nil, err
				}
				if !ok {
					return nil, ErrUnsafe
				}
				args[i] = v
			}
			res.DB.Add(PredKey(c.Head.Predicate), args)
			continue
		}
		rules = append(rules, c)
	}
	strata, err := Stratify(rules)
	if err != nil {
		return nil, err
	}
	res.Strata = len(strata)
	for _, st := range strata {
		inStratum := map[string]bool{}
		for _, p := range st {
			inStratum[p] = true
		}
		if len(st) >= 2 {
			res.RecursiveSCC2 = true
		}
		var srules []ast.Clause
		for _, c := range rules {
			if inStratum[PredKey(c.Head.Predicate)] {
				srules = append(srules, c)
			}
		}
		if len(srules) == 0 {
			continue
		}
		round := 0
		for {
			round++
			if round > cfg.MaxRounds {
				return res, ErrDiverged
			}
			type nf struct {
				pred string
				args []ast.Constant
			}
			var newFacts []nf
			for _, c := range srules {
				heads, sameRound, err := evalRule(c, res.DB, res.Stamp, inStratum)
				if err != nil {
					return res, err
				}
				_ = sameRound
				for _, h := range heads {
					newFacts = append(newFacts, nf{PredKey(c.Head.Predicate), h})
				}
			}
			added := false
			for _, f := range newFacts {
				if res.DB.Add(f.pred, f.args) {
					added = true
					res.Stamp[f.pred+"("+tupleKey(f.args)+")"] = round
				}
			}
			if res.DB.Size() > cfg.MaxFacts {
				return res, ErrDiverged
			}
			if !added {
				break
			}
			if round > res.MaxRounds {
				res.MaxRounds = round
			}
		}
	}
	return res, nil
}

// SolveBody returns the distinct assignments to the named variables of the body.
func SolveBody(premises []ast.Term, db DB) ([]map[string]ast.Constant, error) {
	envs, err := solve(premises, env{}, db)
	if err != nil {
		return nil, err
	}
	seen := map[string]bool{}
	var out []map[string]ast.Constant
	for _, e := range envs {
		k := envKey(e)
		if !seen[k] {
			seen[k] = true
			out = append(out, e)
		}
	}
	return out, nil
}

func envKey(e env) string {
	names := make([]string, 0, len(e))
	for n := range e {
		names = append(names, n)
	}
	sort.Strings(names)
	var sb strings.Builder
	for _, n := range names {
		sb.WriteString(n + "=")
		writeKey(&sb, e[n])
		sb.WriteString(";")
	}
	return sb.String()
}

func evalRule(c ast.Clause, db DB, stamp map[string]int, inStratum map[string]bool) ([][]ast.Constant, bool, error) {
	sols, err := SolveBody(c.Premises, db)
	if err != nil {
		return nil, false, err
	}
	var heads [][]ast.Constant
	emit := func(e env) error {
		args := make([]ast.Constant, len(c.Head.Args))
		for i, t := range c.Head.Args {
			v, ok, err := evalTerm(t, e)
			if err != nil {
				return err
			}
			if !ok {
				return ErrUnsafe
			}
			budget := 3000
			if !withinSize(v, &budget) {
				return ErrDiverged // a term this large only arises in programs that grow terms without bound
			}
			args[i] = v
		}
		heads = append(heads, args)
		return nil
	}
	if c.Transform == nil {
		for _, e := range sols {
			if err := emit(e); err != nil {
				return nil, false, err
			}
		}
		return heads, false, nil
	}
	if c.Transform.Next != nil {
		return nil, false, ErrUnsupported
	}
	if c.Transform.IsLetTransform() {
		for _, e := range sols {
			cur := env(e)
			for _, st := range c.Transform.Statements {
				if st.Var == nil {
					return nil, false, ErrUnsupported
				}
				v, ok, err := evalTerm(st.Fn, cur)
				if err != nil {
					return nil, false, err
				}
				if !ok {
					return nil, false, ErrUnsafe
				}
				cur = cur.with(st.Var.Symbol, v)
			}
			if err := emit(cur); err != nil {
				return nil, false, err
			}
		}
		return heads, false, nil
	}
	// do-transform: group_by
	do := c.Transform.Statements[0]
	if do.Fn.Function.Symbol != "fn:group_by" {
		return nil, false, ErrUnsupported
	}
	type group struct {
		key  env
		rows []env
	}
	groups := map[string]*group{}
	var order []string
	for _, e := range sols {
		k := env{}
		var sb strings.Builder
		for _, a := range do.Fn.Args {
			v, ok := a.(ast.Variable)
			if !ok {
				return nil, false, ErrUnsupported
			}
			c, bound := e[v.Symbol]
			if !bound {
				return nil, false, ErrUnsafe
			}
			k[v.Symbol] = c
			writeKey(&sb, c)
			sb.WriteString(",")
		}
		g := groups[sb.String()]
		if g == nil {
			g = &group{key: k}
			groups[sb.String()] = g
			order = append(order, sb.String())
		}
		g.rows = append(g.rows, e)
	}
	for _, gk := range order {
		g := groups[gk]
		cur := g.key
		for _, st := range c.Transform.Statements[1:] {
			if st.Var == nil {
				return nil, false, ErrUnsupported
			}
			v, err := reduce(st.Fn, g.rows, cur)
			if err != nil {
				return nil, false, err
			}
			cur = cur.with(st.Var.Symbol, v)
		}
		if err := emit(cur); err != nil {
			return nil, false, err
		}
	}
	return heads, false, nil
}

// reduce applies a reducer to the rows of a group. Collections are returned as a list
// sorted by key so that they can be compared as (multi)sets via SortedListKey.
func reduce(fn ast.ApplyFn, rows []env, groupEnv env) (ast.Constant, error) {
	col := func() ([]ast.Constant, error) {
		if len(fn.Args) != 1 {
			return nil, ErrUnsupported
		}
		var out []ast.Constant
		for _, r := range rows {
			v, ok, err := evalTerm(fn.Args[0], r)
			if err != nil {
				return nil, err
			}
			if !ok {
				return nil, ErrUnsafe
			}
			out = append(out, v)
		}
		return out, nil
	}
	ints := func() ([]int64, error) {
		cs, err := col()
		if err != nil {
			return nil, err
		}
		out := make([]int64, len(cs))
		for i, c := range cs {
			if c.Type != ast.NumberType {
				return nil, ErrEvalError
			}
			out[i], _ = c.NumberValue()
		}
		return out, nil
	}
	switch fn.Function.Symbol {
	case "fn:count":
		return ast.Number(int64(len(rows))), nil
	case "fn:sum":
		xs, err := ints()
		if err != nil {
			return ast.Constant{}, err
		}
		var s int64
		for _, x := range xs {
			s += x
		}
		return ast.Number(s), nil
	case "fn:min", "fn:max":
		xs, err := ints()
		if err != nil {
			return ast.Constant{}, err
		}
		m := xs[0]
		for _, x := range xs {
			if (fn.Function.Symbol == "fn:min" && x < m) || (fn.Function.Symbol == "fn:max" && x > m) {
				m = x
			}
		}
		return ast.Number(m), nil
	case "fn:avg":
		xs, err := ints()
		if err != nil {
			return ast.Constant{}, err
		}
		var s float64
		for _, x := range xs {
			s += float64(x)
		}
		return ast.Float64(s / float64(len(xs))), nil
	case "fn:collect", "fn:collect_distinct":
		cs, err := col()
		if err != nil {
			return ast.Constant{}, err
		}
		if fn.Function.Symbol == "fn:collect_distinct" {
			seen := map[string]bool{}
			var d []ast.Constant
			for _, c := range cs {
				if k := Key(c); !seen[k] {
					seen[k] = true
					d = append(d, c)
				}
			}
			cs = d
		}
		sort.Slice(cs, func(i, j int) bool { return Key(cs[i]) < Key(cs[j]) })
		return ast.List(cs), nil
	}
	// non-reducer statement inside do-transform: plain function of the group environment
	v, ok, err := evalTerm(fn, groupEnv)
	if err != nil {
		return ast.Constant{}, err
	}
	if !ok {
		return ast.Constant{}, ErrUnsupported
	}
	return v, nil
}

// SortedListKey is the key of a list constant with its elements sorted (multiset view).
func SortedListKey(c ast.Constant) string {
	var ks []string
	c.ListValues(func(e ast.Constant) error { ks = append(ks, Key(e)); return nil }, func() error { return nil })
	sort.Strings(ks)
	return "L*[" + strings.Join(ks, ",") + "]"
}

func namedVars(t ast.Term) []string {
	m := map[ast.Variable]bool{}
	ast.AddVars(t, m)
	var out []string
	for v := range m {
		if v.Symbol != "_" {
			out = append(out, v.Symbol)
		}
	}
	return out
}

func allBound(t ast.Term, e env) bool {
	for _, v := range namedVars(t) {
		if _, ok := e[v]; !ok {
			return false
		}
	}
	return true
}

func hasWildcard(t ast.BaseTerm) bool {
	switch x := t.(type) {
	case ast.Variable:
		return x.Symbol == "_"
	case ast.ApplyFn:
		for _, a := range x.Args {
			if hasWildcard(a) {
				return true
			}
		}
	}
	return false
}

// solve enumerates the environments satisfying all premises, picking any ready literal.
func solve(rem []ast.Term, e env, db DB) ([]env, error) {
	if len(rem) == 0 {
		return []env{e}, nil
	}
	for i, p := range rem {
		next, ready, err := step(p, e, db)
		if err != nil {
			return nil, err
		}
		if !ready {
			continue
		}
		rest := make([]ast.Term, 0, len(rem)-1)
		rest = append(rest, rem[:i]...)
		rest = append(rest, rem[i+1:]...)
		var out []env
		for _, ne := range next {
			sub, err := solve(rest, ne, db)
			if err != nil {
				return nil, err
			}
			out = append(out, sub...)
		}
		return out, nil
	}
	return nil, ErrUnsafe
}

// step evaluates one literal if it is ready under e.
func step(p ast.Term, e env, db DB) (out []env, ready bool, err error) {
	switch t := p.(type) {
	case ast.Atom:
		if t.Predicate.IsBuiltin() {
			return builtinAtom(t, e)
		}
		// a function application in an argument position is evaluated once its variables have values
		// (it cannot be inverted to give them one); until then the atom is not ready
		args, rdy, err := evalFnArgs(t.Args, e)
		if err != nil || !rdy {
			return nil, false, err
		}
		for _, tup := range db[PredKey(t.Predicate)] {
			ne, ok := unifyArgs(args, tup.Args, e)
			if ok {
				out = append(out, ne)
			}
		}
		return out, true, nil
	case ast.NegAtom:
		if t.Atom.Predicate.IsBuiltin() {
			if !allBound(t.Atom, e) {
				return nil, false, nil
			}
			sub, rdy, err := builtinAtom(t.Atom, e)
			if err != nil || !rdy {
				return nil, rdy, err
			}
			if len(sub) == 0 {
				return []env{e}, true, nil
			}
			return nil, true, nil
		}
		if !allBound(t.Atom, e) {
			return nil, false, nil
		}
		nargs, rdy, err := evalFnArgs(t.Atom.Args, e)
		if err != nil || !rdy {
			return nil, false, err
		}
		for _, tup := range db[PredKey(t.Atom.Predicate)] {
			if _, ok := unifyArgs(nargs, tup.Args, e); ok {
				return nil, true, nil
			}
		}
		return []env{e}, true, nil
	case ast.Eq:
		lv, lok, lerr := evalTerm(t.Left, e)
		rv, rok, rerr := evalTerm(t.Right, e)
		if lerr != nil {
			return nil, false, lerr
		}
		if rerr != nil {
			return nil, false, rerr
		}
		switch {
		case lok && rok:
			if Key(lv) == Key(rv) {
				return []env{e}, true, nil
			}
			return nil, true, nil
		case lok:
			if v, isVar := t.Right.(ast.Variable); isVar {
				if v.Symbol == "_" {
					return []env{e}, true, nil
				}
				return []env{e.with(v.Symbol, lv)}, true, nil
			}
		case rok:
			if v, isVar := t.Left.(ast.Variable); isVar {
				if v.Symbol == "_" {
					return []env{e}, true, nil
				}
				return []env{e.with(v.Symbol, rv)}, true, nil
			}
		}
		return nil, false, nil
	case ast.Ineq:
		lv, lok, lerr := evalTerm(t.Left, e)
		rv, rok, rerr := evalTerm(t.Right, e)
		if lerr != nil {
			return nil, false, lerr
		}
		if rerr != nil {
			return nil, false, rerr
		}
		if !lok || !rok {
			return nil, false, nil
		}
		if Key(lv) != Key(rv) {
			return []env{e}, true, nil
		}
		return nil, true, nil
	}
	return nil, false, ErrUnsupported
}

// evalFnArgs replaces function applications among the arguments of an atom by their values; ready is
// false while one of them mentions a variable without a value.
func evalFnArgs(args []ast.BaseTerm, e env) ([]ast.BaseTerm, bool, error) {
	hasFn := false
	for _, a := range args {
		if _, isFn := a.(ast.ApplyFn); isFn {
			hasFn = true
		}
	}
	if !hasFn {
		return args, true, nil
	}
	out := make([]ast.BaseTerm, len(args))
	for i, a := range args {
		if _, isFn := a.(ast.ApplyFn); !isFn {
			out[i] = a
			continue
		}
		if hasWildcard(a) {
			return nil, false, ErrUnsupported
		}
		v, ok, err := evalTerm(a, e)
		if err != nil {
			return nil, false, err
		}
		if !ok {
			return nil, false, nil
		}
		out[i] = v
	}
	return out, true, nil
}

func unifyArgs(pat []ast.BaseTerm, vals []ast.Constant, e env) (env, bool) {
	if len(pat) != len(vals) {
		return nil, false
	}
	cur := e
	for i, t := range pat {
		switch x := t.(type) {
		case ast.Constant:
			if Key(x) != Key(vals[i]) {
				return nil, false
			}
		case ast.Variable:
			if x.Symbol == "_" {
				continue
			}
			if b, ok := cur[x.Symbol]; ok {
				if Key(b) != Key(vals[i]) {
					return nil, false
				}
			} else {
				cur = cur.with(x.Symbol, vals[i])
			}
		default:
			return nil, false
		}
	}
	return cur, true
}

// unifyOut unifies an output argument (variable, wildcard or evaluable term) with a value.
func unifyOut(t ast.BaseTerm, val ast.Constant, e env) (env, bool, error) {
	if v, ok := t.(ast.Variable); ok {
		if v.Symbol == "_" {
			return e, true, nil
		}
		if b, bound := e[v.Symbol]; bound {
			return e, Key(b) == Key(val), nil
		}
		return e.with(v.Symbol, val), true, nil
	}
	c, ok, err := evalTerm(t, e)
	if err != nil {
		return nil, false, err
	}
	if !ok {
		return nil, false, ErrUnsafe
	}
	return e, Key(c) == Key(val), nil
}

func builtinAtom(t ast.Atom, e env) ([]env, bool, error) {
	sym := t.Predicate.Symbol
	switch sym {
	case ":lt", ":le", ":gt", ":ge":
		a, aok, err := evalTerm(t.Args[0], e)
		if err != nil {
			return nil, false, err
		}
		b, bok, err := evalTerm(t.Args[1], e)
		if err != nil {
			return nil, false, err
		}
		if !aok || !bok {
			return nil, false, nil
		}
		if a.Type != ast.NumberType || b.Type != ast.NumberType {
			return nil, false, ErrEvalError
		}
		x, _ := a.NumberValue()
		y, _ := b.NumberValue()
		var r bool
		switch sym {
		case ":lt":
			r = x < y
		case ":le":
			r = x <= y
		case ":gt":
			r = x > y
		case ":ge":
			r = x >= y
		}
		if r {
			return []env{e}, true, nil
		}
		return nil, true, nil
	case ":match_pair":
		s, ok, err := evalTerm(t.Args[0], e)
		if err != nil || !ok {
			return nil, false, err
		}
		if s.Type != ast.PairShape {
			return nil, true, nil
		}
		a, b, _ := s.PairValue()
		e1, ok1, err := unifyOut(t.Args[1], a, e)
		if err != nil {
			return nil, false, err
		}
		if !ok1 {
			return nil, true, nil
		}
		e2, ok2, err := unifyOut(t.Args[2], b, e1)
		if err != nil {
			return nil, false, err
		}
		if !ok2 {
			return nil, true, nil
		}
		return []env{e2}, true, nil
	case ":match_cons":
		s, ok, err := evalTerm(t.Args[0], e)
		if err != nil || !ok {
			return nil, false, err
		}
		if s.Type != ast.ListShape || s.IsListNil() {
			return nil, true, nil
		}
		h, tl, _ := s.ConsValue()
		e1, ok1, err := unifyOut(t.Args[1], h, e)
		if err != nil {
			return nil, false, err
		}
		if !ok1 {
			return nil, true, nil
		}
		e2, ok2, err := unifyOut(t.Args[2], tl, e1)
		if err != nil {
			return nil, false, err
		}
		if !ok2 {
			return nil, true, nil
		}
		return []env{e2}, true, nil
	case ":match_nil":
		s, ok, err := evalTerm(t.Args[0], e)
		if err != nil || !ok {
			return nil, false, err
		}
		if s.Type == ast.ListShape && s.IsListNil() {
			return []env{e}, true, nil
		}
		return nil, true, nil
	case ":list:member":
		l, ok, err := evalTerm(t.Args[1], e)
		if err != nil || !ok {
			return nil, false, err
		}
		if l.Type != ast.ListShape {
			return nil, false, ErrEvalError
		}
		var elems []ast.Constant
		l.ListValues(func(c ast.Constant) error { elems = append(elems, c); return nil }, func() error { return nil })
		var out []env
		seen := map[string]bool{}
		for _, el := range elems {
			ne, ok, err := unifyOut(t.Args[0], el, e)
			if err != nil {
				return nil, false, err
			}
			if ok {
				k := envKey(ne)
				if !seen[k] {
					seen[k] = true
					out = append(out, ne)
				}
			}
		}
		return out, true, nil
	}
	return nil, false, ErrUnsupported
}

// evalTerm evaluates a base term; ok=false when some variable is unbound.
func evalTerm(t ast.BaseTerm, e env) (ast.Constant, bool, error) {
	switch x := t.(type) {
	case ast.Constant:
		return x, true, nil
	case ast.Variable:
		c, ok := e[x.Symbol]
		return c, ok, nil
	case ast.ApplyFn:
		args := make([]ast.Constant, len(x.Args))
		for i, a := range x.Args {
			v, ok, err := evalTerm(a, e)
			if err != nil || !ok {
				return ast.Constant{}, ok, err
			}
			args[i] = v
		}
		v, err := applyFn(x.Function.Symbol, args)
		return v, err == nil, err
	}
	return ast.Constant{}, false, ErrUnsupported
}

func applyFn(sym string, args []ast.Constant) (ast.Constant, error) {
	nums := func() ([]int64, error) {
		out := make([]int64, len(args))
		for i, a := range args {
			if a.Type != ast.NumberType {
				return nil, ErrEvalError
			}
			out[i], _ = a.NumberValue()
		}
		return out, nil
	}
	switch sym {
	case "fn:plus", "fn:mult", "fn:minus":
		xs, err := nums()
		if err != nil {
			return ast.Constant{}, err
		}
		if len(xs) == 0 {
			return ast.Constant{}, ErrUnsupported
		}
		if sym == "fn:minus" && len(xs) == 1 {
			return ast.Number(-xs[0]), nil
		}
		acc := xs[0]
		for _, x := range xs[1:] {
			switch sym {
			case "fn:plus":
				acc += x
			case "fn:mult":
				acc *= x
			case "fn:minus":
				acc -= x
			}
		}
		return ast.Number(acc), nil
	case "fn:pair":
		if len(args) != 2 {
			return ast.Constant{}, ErrEvalError
		}
		return ast.Pair(&args[0], &args[1]), nil
	case "fn:list":
		if len(args) == 0 {
			return ast.ListNil, nil
		}
		return ast.List(args), nil
	case "fn:list:cons", "fn:cons":
		if len(args) != 2 || args[1].Type != ast.ListShape {
			return ast.Constant{}, ErrEvalError
		}
		return ast.ListCons(&args[0], &args[1]), nil
	case "fn:list:len", "fn:len":
		if len(args) != 1 || args[0].Type != ast.ListShape {
			return ast.Constant{}, ErrEvalError
		}
		n := 0
		args[0].ListValues(func(ast.Constant) error { n++; return nil }, func() error { return nil })
		return ast.Number(int64(n)), nil
	}
	return ast.Constant{}, ErrUnsupported
}

// withinSize walks a constant and reports whether it has at most *budget nodes (shared
// sub-terms are counted each time they occur, as every traversal of the term would).
func withinSize(c ast.Constant, budget *int) bool {
	*budget--
	if *budget < 0 {
		return false
	}
	switch c.Type {
	case ast.PairShape:
		a, b, _ := c.PairValue()
		return withinSize(a, budget) && withinSize(b, budget)
	case ast.ListShape, ast.MapShape, ast.StructShape:
		if c.IsListNil() || c.IsMapNil() || c.IsStructNil() {
			return true
		}
		h, t, err := c.ConsValue()
		if err != nil {
			// maps/structs: entry pair + rest; use the generic accessors
			ok := true
			cb := func(k, v ast.Constant) error {
				if !withinSize(k, budget) || !withinSize(v, budget) {
					ok = false
				}
				return nil
			}
			if c.Type == ast.MapShape {
				c.MapValues(cb, func() error { return nil })
			} else {
				c.StructValues(cb, func() error { return nil })
			}
			return ok
		}
		return withinSize(h, budget) && withinSize(t, budget)
	}
	return true
}

// BuiltinHolds decides a ground built-in atom (all arguments constants) by the reference semantics.
func BuiltinHolds(a ast.Atom) (bool, error) {
	out, ready, err := builtinAtom(a, env{})
	if err != nil {
		return false, err
	}
	if !ready {
		return false, ErrUnsafe
	}
	return len(out) > 0, nil
}
