// Package statescan lists the places where the repository's non-test code writes to package-level variables after
// initialisation: the shared library state that parallel parse/analyse/evaluate calls could interfere through.
package statescan

import (
	"fmt"
	"go/ast"
	"go/parser"
	"go/token"
	"os"
	"path/filepath"
	"sort"
	"strings"
)

// lists package-level variables of the repository's non-test code and the places inside function bodies where
// they (or an element/field of them) are assigned, incremented, deleted from or passed to append.
// Scan returns one line per write site, "file:line: <what> of package-level pkg.name in func".
func Scan(root string) []string {
	var out []string
	fset := token.NewFileSet()
	filepath.Walk(root, func(path string, info os.FileInfo, err error) error {
		if err != nil || !info.IsDir() || strings.Contains(path, "/.git") || strings.Contains(path, "parse/gen") || strings.Contains(path, "/rust") {
			return nil
		}
		pkgs, err := parser.ParseDir(fset, path, func(fi os.FileInfo) bool { return !strings.HasSuffix(fi.Name(), "_test.go") }, 0)
		if err != nil {
			return nil
		}
		for _, pkg := range pkgs {
			globals := map[string]token.Pos{}
			for _, f := range pkg.Files {
				for _, d := range f.Decls {
					gd, ok := d.(*ast.GenDecl)
					if !ok || gd.Tok != token.VAR {
						continue
					}
					for _, sp := range gd.Specs {
						for _, n := range sp.(*ast.ValueSpec).Names {
							globals[n.Name] = n.Pos()
						}
					}
				}
			}
			rootIdent := func(e ast.Expr) string {
				for {
					switch x := e.(type) {
					case *ast.Ident:
						return x.Name
					case *ast.IndexExpr:
						e = x.X
					case *ast.SelectorExpr:
						e = x.X
					case *ast.StarExpr:
						e = x.X
					case *ast.ParenExpr:
						e = x.X
					default:
						return ""
					}
				}
			}
			for _, f := range pkg.Files {
				for _, d := range f.Decls {
					fd, ok := d.(*ast.FuncDecl)
					if !ok || fd.Body == nil || fd.Name.Name == "init" {
						continue
					}
					locals := map[string]bool{}
					ast.Inspect(fd, func(n ast.Node) bool {
						switch x := n.(type) {
						case *ast.AssignStmt:
							if x.Tok == token.DEFINE {
								for _, l := range x.Lhs {
									if id, ok := l.(*ast.Ident); ok {
										locals[id.Name] = true
									}
								}
							}
						case *ast.Field:
							for _, nm := range x.Names {
								locals[nm.Name] = true
							}
						case *ast.ValueSpec:
							for _, nm := range x.Names {
								locals[nm.Name] = true
							}
						}
						return true
					})
					report := func(e ast.Expr, what string) {
						r := rootIdent(e)
						if _, ok := globals[r]; ok && !locals[r] {
							if r != "_" {
								pos := fset.Position(e.Pos())
								rel, _ := filepath.Rel(root, pos.Filename)
								out = append(out, fmt.Sprintf("%s:%d: %s of package-level %s.%s in %s", rel, pos.Line, what, pkg.Name, r, fd.Name.Name))
							}
						}
					}
					ast.Inspect(fd.Body, func(n ast.Node) bool {
						switch x := n.(type) {
						case *ast.AssignStmt:
							if x.Tok != token.DEFINE {
								for _, l := range x.Lhs {
									report(l, "assignment")
								}
							}
						case *ast.IncDecStmt:
							report(x.X, "inc/dec")
						case *ast.CallExpr:
							if id, ok := x.Fun.(*ast.Ident); ok && (id.Name == "delete" || id.Name == "append") && len(x.Args) > 0 {
								if id.Name == "delete" {
									report(x.Args[0], "delete")
								}
							}
						}
						return true
					})
				}
			}
		}
		return nil
	})
	sort.Strings(out)
	return out
}
