// Package mg holds the thin drivers around the real mangle library that several checks share.
package mg

import (
	"fmt"
	"sort"
	"strings"
	"time"

	"codeberg.org/TauCeti/mangle-go/analysis"
	"codeberg.org/TauCeti/mangle-go/ast"
	"codeberg.org/TauCeti/mangle-go/engine"
	"codeberg.org/TauCeti/mangle-go/factstore"
	"codeberg.org/TauCeti/mangle-go/functional"
	"codeberg.org/TauCeti/mangle-go/parse"

	"verifmc/oracle"
)

// EvalTime is the fixed evaluation time used everywhere (no wall-clock dependence).
var EvalTime = time.Unix(1700000000, 0).UTC()

// StoreKinds are the writable store constructions the engine can be given.
var StoreKinds = []string{"multiarray", "simple", "indexed", "multi", "teeing-empty", "teeing-base", "merged", "concurrent"}

// NewStore builds a fresh store of a kind. For wrappers with a base, the base receives the
// given atoms first (edbInBase) so the EDB is visible through the read side.
func NewStore(kind string) factstore.FactStore {
	switch kind {
	case "simple":
		return factstore.NewSimpleInMemoryStore()
	case "indexed":
		return factstore.NewIndexedInMemoryStore()
	case "multi":
		return factstore.NewMultiIndexedInMemoryStore()
	case "multiarray":
		return factstore.NewMultiIndexedArrayInMemoryStore()
	case "teeing-empty", "teeing-base":
		return factstore.NewTeeingStore(factstore.NewSimpleInMemoryStore())
	case "merged":
		return factstore.NewMergedStore([]factstore.ReadOnlyFactStore{factstore.NewSimpleInMemoryStore()}, factstore.NewMultiIndexedArrayInMemoryStore())
	case "concurrent":
		return factstore.NewConcurrentFactStore(factstore.NewMultiIndexedArrayInMemoryStore())
	}
	panic("unknown store kind " + kind)
}

// NewStoreWithEDB builds a store of the kind holding the EDB; for "teeing-base" and "merged"
// the EDB lives in the read-only/base part.
func NewStoreWithEDB(kind string, edb []ast.Atom) factstore.FactStore {
	switch kind {
	case "teeing-base":
		base := factstore.NewSimpleInMemoryStore()
		for _, a := range edb {
			base.Add(a)
		}
		return factstore.NewTeeingStore(base)
	case "merged":
		base := factstore.NewSimpleInMemoryStore()
		for _, a := range edb {
			base.Add(a)
		}
		return factstore.NewMergedStore([]factstore.ReadOnlyFactStore{base}, factstore.NewMultiIndexedArrayInMemoryStore())
	}
	s := NewStore(kind)
	for _, a := range edb {
		s.Add(a)
	}
	return s
}

// Parse parses a source unit.
func Parse(src string) (parse.SourceUnit, error) {
	return parse.Unit(strings.NewReader(src))
}

// Analyze parses and analyses source text freshly (analysis mutates its inputs).
func Analyze(src string) (*analysis.ProgramInfo, error) {
	u, err := Parse(src)
	if err != nil {
		return nil, fmt.Errorf("parse: %w", err)
	}
	return analysis.AnalyzeOneUnit(u, nil)
}

// Canon reads a store through ListPredicates+GetFacts into canonical keys. Internal
// predicates (…__tmp) are dropped. dups counts facts delivered more than once.
func Canon(store factstore.ReadOnlyFactStore) (keys []string, dups int, nonGround []string) {
	seen := map[string]bool{}
	for _, p := range store.ListPredicates() {
		if p.IsInternalPredicate() || strings.HasSuffix(p.Symbol, "__tmp") {
			continue
		}
		store.GetFacts(ast.NewQuery(p), func(a ast.Atom) error {
			k, err := oracle.AtomKeyOf(a)
			if err != nil {
				nonGround = append(nonGround, a.String())
				return nil
			}
			if seen[k] {
				dups++
				return nil
			}
			seen[k] = true
			keys = append(keys, k)
			return nil
		})
	}
	sort.Strings(keys)
	return
}

// Atoms lists all atoms of a store.
func Atoms(store factstore.ReadOnlyFactStore) []ast.Atom {
	var out []ast.Atom
	for _, p := range store.ListPredicates() {
		store.GetFacts(ast.NewQuery(p), func(a ast.Atom) error { out = append(out, a); return nil })
	}
	return out
}

// Diff returns elements only in a and only in b (both sorted).
func Diff(a, b []string) (onlyA, onlyB []string) {
	ma := map[string]bool{}
	for _, x := range a {
		ma[x] = true
	}
	mb := map[string]bool{}
	for _, x := range b {
		mb[x] = true
		if !ma[x] {
			onlyB = append(onlyB, x)
		}
	}
	for _, x := range a {
		if !mb[x] {
			onlyA = append(onlyA, x)
		}
	}
	return
}

// ParseAtoms parses "p(1,2)." style fact lines (without the dot) into ground atoms.
func ParseAtoms(facts []string) ([]ast.Atom, error) {
	var out []ast.Atom
	for _, f := range facts {
		f = strings.TrimSuffix(strings.TrimSpace(f), ".")
		a, err := parse.Atom(f)
		if err != nil {
			return nil, fmt.Errorf("atom %q: %w", f, err)
		}
		// constructor expressions ([1, 2], fn:pair(1, 2), {/a: 1}) are evaluated to constants
		for i, arg := range a.Args {
			if _, isFn := arg.(ast.ApplyFn); isFn {
				v, err := functional.EvalExpr(arg, nil)
				if err != nil {
					return nil, fmt.Errorf("atom %q: %w", f, err)
				}
				a.Args = append([]ast.BaseTerm{}, a.Args...)
				a.Args[i] = v
			}
		}
		out = append(out, a)
	}
	return out, nil
}

// Eval runs the real semi-naive engine.
func Eval(pi *analysis.ProgramInfo, store factstore.FactStore, opts ...engine.EvalOption) error {
	opts = append([]engine.EvalOption{engine.WithEvaluationTime(EvalTime)}, opts...)
	return engine.EvalProgram(pi, store, opts...)
}

// Short truncates a list for messages.
func Short(xs []string) string {
	if len(xs) > 6 {
		return strings.Join(xs[:6], " ") + fmt.Sprintf(" …(+%d)", len(xs)-6)
	}
	return strings.Join(xs, " ")
}
