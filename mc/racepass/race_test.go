// Package racepass holds the free-running bodies of C18's auxiliary race pass. It is built WITHOUT the
// sync overlay (real package sync) and run under `go test -race`.
package racepass

import (
	"os"
	"strconv"
	"strings"
	"sync"
	"testing"

	"codeberg.org/TauCeti/mangle-go/analysis"
	"codeberg.org/TauCeti/mangle-go/ast"
	"codeberg.org/TauCeti/mangle-go/engine"
	"codeberg.org/TauCeti/mangle-go/factstore"
	"codeberg.org/TauCeti/mangle-go/parse"
)

func iters() int {
	n, err := strconv.Atoi(os.Getenv("VERIF_RACE_ITERS"))
	if err != nil || n <= 0 {
		return 200
	}
	return n
}

func TestRaceConcurrentStore(t *testing.T) {
	store := factstore.NewConcurrentFactStore(factstore.NewMultiIndexedArrayInMemoryStore())
	a, b := ast.NewAtom("p", ast.Number(1)), ast.NewAtom("p", ast.Number(2))
	var wg sync.WaitGroup
	for g := 0; g < 8; g++ {
		wg.Add(1)
		go func(g int) {
			defer wg.Done()
			for i := 0; i < iters(); i++ {
				switch (g + i) % 7 {
				case 0:
					store.Add(a)
				case 1:
					store.Add(b)
				case 2:
					store.Remove(a)
				case 3:
					store.Contains(a)
				case 4:
					store.GetFacts(ast.NewQuery(a.Predicate), func(ast.Atom) error { return nil })
				case 5:
					src := factstore.NewSimpleInMemoryStore()
					src.Add(a)
					src.Add(b)
					store.Merge(src)
				case 6:
					store.EstimateFactCount()
					store.ListPredicates()
				}
			}
		}(g)
	}
	wg.Wait()
}

var programs = []string{
	"Decl e(A,B).\ne(1,2). e(2,3). e(3,1).\np(X,Y) :- e(X,Y).\np(X,Y) :- p(X,Z), e(Z,Y).\n",
	"Decl n(A).\nn(1). n(2). n(5).\nb(X,Y) :- n(X), n(Y), X < Y.\nc(N) :- b(X,_) |> do fn:group_by(), let N = fn:count().\n",
	"d(X) :- X = fn:plus(1, 2).\nt(Y) :- d(X), Y = fn:list(X, \"s\", /n).\n",
	"Decl a(X) temporal bound [/number].\na(1)@[2024-01-01, 2024-01-05].\nb(X)@[S,E] :- a(X)@[S,E].\n",
}

func TestRaceParallelPipelines(t *testing.T) {
	var wg sync.WaitGroup
	n := iters() / 20
	if n < 5 {
		n = 5
	}
	for g := 0; g < 16; g++ {
		wg.Add(1)
		go func(g int) {
			defer wg.Done()
			for i := 0; i < n; i++ {
				src := programs[(g+i)%len(programs)]
				u, err := parse.Unit(strings.NewReader(src))
				if err != nil {
					t.Errorf("parse: %v", err)
					return
				}
				pi, err := analysis.AnalyzeOneUnit(u, nil)
				if err != nil {
					t.Errorf("analysis: %v", err)
					return
				}
				store := factstore.NewSimpleInMemoryStore()
				if err := engine.EvalProgram(pi, store, engine.WithTemporalStore(factstore.NewTemporalStore())); err != nil {
					t.Errorf("eval: %v", err)
					return
				}
				if g%4 == 0 {
					ast.MustSetTimezone("UTC")
				}
				_ = ast.Date(2024, 1, 2)
				parse.Term("foo(")
				parse.PredicateName("abc")
			}
		}(g)
	}
	wg.Wait()
}
