package main

import (
	"fmt"
	"os"

	"codeberg.org/TauCeti/mangle-go/engine"
	"codeberg.org/TauCeti/mangle-go/factstore"
	"codeberg.org/TauCeti/mangle-go/provenance"

	"verifmc/mg"
)

func main() {
	src := "Decl e(A,B).\nDecl u(A).\nw(X) :- e(X,_), !u(X).\n"
	pi, err := mg.Analyze(src)
	if err != nil {
		panic(err)
	}
	edb, _ := mg.ParseAtoms([]string{"e(1,1)"})
	store := factstore.NewMultiIndexedArrayInMemoryStore()
	for _, a := range edb {
		store.Add(a)
	}
	rec := provenance.NewMemoryRecorder()
	if err := mg.Eval(pi, store, engine.WithDerivationRecorder(rec)); err != nil {
		panic(err)
	}
	goal, _ := mg.ParseAtoms([]string{"w(1)"})
	for _, ev := range rec.EventsFor(goal[0]) {
		fmt.Println("EVENT", ev.Rule, ev.Output, ev.PremiseFacts)
	}
	proofs, err := provenance.BuildFromRecording(rec, store, goal[0], provenance.Options{MaxProofs: 3})
	fmt.Println(err)
	provenance.Print(os.Stdout, proofs)
}
