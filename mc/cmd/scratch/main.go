package main

import (
	"fmt"

	"codeberg.org/TauCeti/mangle-go/ast"
	"codeberg.org/TauCeti/mangle-go/parse"
	"codeberg.org/TauCeti/mangle-go/symbols"
)

func main() {
	for _, t := range []string{"fn:Union(/number, /string)", "fn:List(/number)", "fn:Struct(/f, /number)", "fn:Tuple(/number, /string, /name)", "fn:Map(/name, /number)"} {
		bt, _ := parse.BaseTerm(t)
		h, err := symbols.NewSetHandle(bt)
		fmt.Printf("%s  fn=%#v err=%v  hasType(1)=%v\n", t, bt.(ast.ApplyFn).Function, err, h.HasType(ast.Number(1)))
	}
	fmt.Println(symbols.NewSetHandle(symbols.NewUnionType(ast.NumberBound, ast.StringBound)))
	h, _ := symbols.NewSetHandle(symbols.NewUnionType(ast.NumberBound, ast.StringBound))
	fmt.Println(h.HasType(ast.Number(1)))
}
