// Command overlaygen derives the "vmap" build overlay from the repository's CURRENT files: every
// `for ... range X` whose X has map type (decided with go/types) becomes
// `for ... range verifvmap.Range(X)`, so that the explorer owns map iteration order.
//
//	overlaygen -repo /repo -out <cachedir> -vmap <path to seam/vmap/vmap.go> -extra key=val,... > overlay.json
//
// Output files are written under -out; the JSON on stdout is a go build -overlay file.
package main

import (
	"crypto/sha256"
	"encoding/json"
	"flag"
	"fmt"
	"go/ast"
	"go/importer"
	"go/parser"
	"go/token"
	"go/types"
	"io"
	"os"
	"os/exec"
	"path/filepath"
	"sort"
	"strings"
)

var pkgs = []string{"ast", "unionfind", "symbols", "functional", "builtin", "parse", "packages", "factstore", "analysis", "rewrite", "engine", "provenance", "interpreter"}

const modPath = "codeberg.org/TauCeti/mangle-go"

func main() {
	repo := flag.String("repo", "/repo", "repository root")
	out := flag.String("out", "", "directory for rewritten files")
	vmapSrc := flag.String("vmap", "", "path of vmap.go")
	extra := flag.String("extra", "", "additional overlay entries: virtualpath=realpath,...")
	flag.Parse()
	if err := os.Chdir(*repo); err != nil {
		fatal(err)
	}
	// cache key: content of all non-test go files of the instrumented packages + the seam source
	h := sha256.New()
	var allFiles []string
	for _, p := range pkgs {
		fs, _ := filepath.Glob(filepath.Join(*repo, p, "*.go"))
		sort.Strings(fs)
		for _, f := range fs {
			if strings.HasSuffix(f, "_test.go") {
				continue
			}
			allFiles = append(allFiles, f)
			b, err := os.ReadFile(f)
			if err != nil {
				fatal(err)
			}
			fmt.Fprintf(h, "%s %d\n", f, len(b))
			h.Write(b)
		}
	}
	vb, err := os.ReadFile(*vmapSrc)
	if err != nil {
		fatal(err)
	}
	h.Write(vb)
	key := fmt.Sprintf("%x", h.Sum(nil))[:20]
	dir := filepath.Join(*out, key)
	replace := map[string]string{filepath.Join(*repo, "verifseam/vmap/vmap.go"): *vmapSrc}
	for _, kv := range strings.Split(*extra, ",") {
		if i := strings.Index(kv, "="); i > 0 {
			replace[kv[:i]] = kv[i+1:]
		}
	}
	manifest := filepath.Join(dir, "manifest.json")
	if b, err := os.ReadFile(manifest); err == nil {
		var cached map[string]string
		if json.Unmarshal(b, &cached) == nil {
			for k, v := range cached {
				replace[k] = v
			}
			emit(replace)
			return
		}
	}
	// older generations are removed
	if old, _ := filepath.Glob(filepath.Join(*out, "*")); len(old) > 0 {
		for _, o := range old {
			os.RemoveAll(o)
		}
	}
	os.MkdirAll(dir, 0o755)
	fset := token.NewFileSet()
	// export data of all dependencies from the build cache (fast); fall back to the source importer
	exports := map[string]string{}
	if outb, err := exec.Command("go", "list", "-export", "-deps", "-f", "{{.ImportPath}} {{.Export}}", "./...").Output(); err == nil {
		for _, line := range strings.Split(string(outb), "\n") {
			if f := strings.Fields(line); len(f) == 2 {
				exports[f[0]] = f[1]
			}
		}
	}
	var imp types.Importer
	if len(exports) > 10 {
		imp = importer.ForCompiler(fset, "gc", func(path string) (io.ReadCloser, error) {
			f, ok := exports[path]
			if !ok {
				return nil, fmt.Errorf("no export data for %s", path)
			}
			return os.Open(f)
		})
	} else {
		imp = importer.ForCompiler(fset, "source", nil)
	}
	rewritten := map[string]string{}
	sites := 0
	for _, p := range pkgs {
		var files []*ast.File
		var names []string
		for _, f := range allFiles {
			if filepath.Dir(f) != filepath.Join(*repo, p) {
				continue
			}
			af, err := parser.ParseFile(fset, f, nil, parser.ParseComments)
			if err != nil {
				fatal(err)
			}
			files = append(files, af)
			names = append(names, f)
		}
		info := &types.Info{Types: map[ast.Expr]types.TypeAndValue{}}
		conf := types.Config{Importer: imp, Error: func(error) {}}
		if _, err := conf.Check(modPath+"/"+p, fset, files, info); err != nil {
			fmt.Fprintf(os.Stderr, "overlaygen: type-check of %s: %v (continuing)\n", p, err)
		}
		for i, af := range files {
			type span struct{ a, b int }
			var spans []span
			ast.Inspect(af, func(n ast.Node) bool {
				rs, ok := n.(*ast.RangeStmt)
				if !ok {
					return true
				}
				tv, ok := info.Types[rs.X]
				if !ok || tv.Type == nil {
					return true
				}
				if _, isMap := tv.Type.Underlying().(*types.Map); isMap {
					spans = append(spans, span{fset.Position(rs.X.Pos()).Offset, fset.Position(rs.X.End()).Offset})
				}
				return true
			})
			if len(spans) == 0 {
				continue
			}
			src, err := os.ReadFile(names[i])
			if err != nil {
				fatal(err)
			}
			sort.Slice(spans, func(a, b int) bool { return spans[a].a > spans[b].a })
			s := string(src)
			for _, sp := range spans {
				s = s[:sp.a] + "verifvmap.Range(" + s[sp.a:sp.b] + ")" + s[sp.b:]
				sites++
			}
			// add the import after the package clause
			pkgEnd := fset.Position(af.Name.End()).Offset
			s = s[:pkgEnd] + "\n\nimport verifvmap \"" + modPath + "/verifseam/vmap\"\n" + s[pkgEnd:]
			rel, _ := filepath.Rel(*repo, names[i])
			dst := filepath.Join(dir, rel)
			os.MkdirAll(filepath.Dir(dst), 0o755)
			if err := os.WriteFile(dst, []byte(s), 0o644); err != nil {
				fatal(err)
			}
			rewritten[names[i]] = dst
		}
	}
	if sites < 50 {
		fatal(fmt.Errorf("only %d range-over-map sites found; the type-checker probably failed", sites))
	}
	mb, _ := json.Marshal(rewritten)
	os.WriteFile(manifest, mb, 0o644)
	fmt.Fprintf(os.Stderr, "overlaygen: %d range-over-map sites rewritten in %d files\n", sites, len(rewritten))
	for k, v := range rewritten {
		replace[k] = v
	}
	emit(replace)
}

func emit(replace map[string]string) {
	b, _ := json.MarshalIndent(map[string]any{"Replace": replace}, "", " ")
	fmt.Println(string(b))
}

func fatal(err error) {
	fmt.Fprintf(os.Stderr, "overlaygen: %v\n", err)
	os.Exit(2)
}
