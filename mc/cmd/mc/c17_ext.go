package main

import (
	"fmt"
	"strings"

	"codeberg.org/TauCeti/mangle-go/analysis"
	"codeberg.org/TauCeti/mangle-go/ast"
	"codeberg.org/TauCeti/mangle-go/engine"

	"verifmc/mg"
	"verifmc/rt"
)

// c17Rows is an external predicate rows(K, V) that answers every query with V = 1..n.
type c17Rows struct{ n int }

func (s *c17Rows) ShouldPushdown() bool { return false }
func (s *c17Rows) ShouldQuery(inputs []ast.Constant, filters []ast.BaseTerm, pushdown []ast.Term) bool {
	return true
}
func (s *c17Rows) ExecuteQuery(inputs []ast.Constant, filters []ast.BaseTerm, pushdown []ast.Term, cb func([]ast.BaseTerm)) error {
	for v := 1; v <= s.n; v++ {
		cb([]ast.BaseTerm{ast.Number(int64(v))})
	}
	return nil
}

const c17ExtDecl = "Decl rows(K, V) descr [external(), mode('+', '-')] bound [/number, /number].\n"

// c17External: programs that read an external relation, under every limit 1..30 and for sources of 5 and 20 rows. No
// reference evaluator is involved: the oracle is the unlimited evaluation of the same program — with a limit the
// engine either reports an error or ends with exactly that store.
func c17External(r *rt.Run) {
	rules := []string{
		"late(K) :- seed(K), rows(K, V), :gt(V, 15).",
		"late(K) :- seed(K), rows(K, V), :gt(V, 3).",
		"any(K, V) :- seed(K), rows(K, V).",
		"n(K, C) :- seed(K), rows(K, V) |> do fn:group_by(K), let C = fn:count().",
		"top(K) :- seed(K), rows(K, V), !small(V).\nsmall(V) :- seed(K), rows(K, V), V < 20.",
	}
	eval := func(src string, n, limit, seeds int) (error, []string, any, string) {
		pi, err := func() (*analysis.ProgramInfo, error) {
			u, err := mg.Parse(c17ExtDecl + "Decl seed(K) bound [/number].\n" + src + "\n")
			if err != nil {
				return nil, err
			}
			return analysis.AnalyzeOneUnit(u, nil)
		}()
		if err != nil {
			panic(fmt.Sprintf("C17 external family: %v\n%s", err, src))
		}
		var edb []ast.Atom
		for i := 1; i <= seeds; i++ {
			edb = append(edb, ast.NewAtom("seed", ast.Number(int64(i))))
		}
		store := mg.NewStoreWithEDB("multiarray", edb)
		opts := []engine.EvalOption{engine.WithExternalPredicates(map[ast.PredicateSym]engine.ExternalPredicateCallback{{Symbol: "rows", Arity: 2}: &c17Rows{n}})}
		if limit > 0 {
			opts = append(opts, engine.WithCreatedFactLimit(limit))
		}
		var everr error
		pv, st := rt.Try(func() { everr = mg.Eval(pi, store, opts...) })
		return everr, aggCanon(mg.Atoms(store)), pv, rt.ShortStack(st)
	}
	for _, src := range rules {
		for _, n := range []int{5, 20} {
			for _, seeds := range []int{1, 2} {
				werr, want, pv, _ := eval(src, n, 0, seeds)
				if werr != nil || pv != nil {
					continue // the unlimited run is the reference; a program it cannot evaluate is not in this family
				}
				for limit := 1; limit <= 30; limit++ {
					r.Add("states", 1)
					r.Add("evaluations", 1)
					r.Add("transitions", 1)
					r.Add("traces_validated_against_impl", 1)
					w := map[string]any{"family": "external", "source": src, "rows": n, "seeds": seeds, "limit": limit}
					err, got, pv, st := eval(src, n, limit, seeds)
					if pv != nil {
						r.Violate("panic", fmt.Sprintf("[external rows=%d limit=%d] %v at %s\n%s", n, limit, pv, st, src), w)
						continue
					}
					if err != nil {
						r.Outcome("external/error")
						continue
					}
					r.Outcome("external/nil")
					if missing, extra := mg.Diff(want, got); len(missing)+len(extra) > 0 {
						r.Violate("silent-partial-result", fmt.Sprintf("[external source of %d rows, %d seed(s), limit=%d] evaluation returned nil but the store is not the store of the unlimited evaluation: missing %s; unexpected %s\n%s", n, seeds, limit, mg.Short(missing), mg.Short(extra), strings.TrimSpace(src)), w)
					}
				}
			}
		}
	}
}
