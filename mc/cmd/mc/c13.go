package main

import (
	"errors"
	"fmt"
	"math"
	"sort"
	"strings"
	"time"

	"codeberg.org/TauCeti/mangle-go/ast"
	"codeberg.org/TauCeti/mangle-go/factstore"

	"verifmc/rt"
)

func init() { register("C13", c13) }

const (
	negInf = math.MinInt64
	posInf = math.MaxInt64
)

// iv is a model interval in nanoseconds on the small timeline (scaled by the run's scale).
type iv struct{ s, e int64 }

func (i iv) String() string {
	f := func(x int64) string {
		if x == negInf {
			return "-inf"
		}
		if x == posInf {
			return "+inf"
		}
		return fmt.Sprint(x)
	}
	return "[" + f(i.s) + "," + f(i.e) + "]"
}

// c13Origin shifts the small timeline before scaling (ns = (x - origin) * scale); 0 except for the far-apart family.
// It is a field of the configuration; toAst/fromAst take the pair through c13Cfg.
func (i iv) toAst(scale int64, origin ...int64) ast.Interval {
	o := int64(0)
	if len(origin) > 0 {
		o = origin[0]
	}
	return i.toAstAffine(scale, o)
}

func (i iv) toAstAffine(scale, origin int64) ast.Interval {
	b := func(x int64) ast.TemporalBound {
		if x == negInf {
			return ast.NegativeInfinity()
		}
		if x == posInf {
			return ast.PositiveInfinity()
		}
		return ast.NewTimestampBound(time.Unix(0, (x-origin)*scale))
	}
	return ast.NewInterval(b(i.s), b(i.e))
}

func fromAst(a ast.Interval, scale int64, origin ...int64) iv {
	o := int64(0)
	if len(origin) > 0 {
		o = origin[0]
	}
	f := func(b ast.TemporalBound, neg bool) int64 {
		switch b.Type {
		case ast.TimestampBound:
			return b.Timestamp/scale + o
		case ast.NegativeInfinityBound:
			return negInf
		case ast.PositiveInfinityBound:
			return posInf
		}
		return -999
	}
	return iv{f(a.Start, true), f(a.End, false)}
}

func c13Intervals() []iv {
	var out []iv
	for s := int64(0); s <= 5; s++ {
		for e := s; e <= 5; e++ {
			out = append(out, iv{s, e})
		}
	}
	for e := int64(0); e <= 5; e++ {
		out = append(out, iv{negInf, e})
	}
	for s := int64(0); s <= 5; s++ {
		out = append(out, iv{s, posInf})
	}
	out = append(out, iv{negInf, posInf})
	return out
}

type c13Op struct {
	atom int
	iv   iv
}

type c13Cfg struct {
	atoms []ast.Atom
	names []string
	limit int // 0 = default
	scale int64
	// origin of the affine timeline: nanoseconds = (point - origin) * scale
	origin int64
}

func (c *c13Cfg) ns(x int64) int64 { return (x - c.origin) * c.scale }

type pairKey struct {
	atom int
	iv   iv
}

// c13Node replays the history on a fresh store, then runs every observer against the model.
func c13Node(r *rt.Run, cfg *c13Cfg, ops []c13Op, label string) {
	r.Add("states", 1)
	r.Add("evaluations", 1)
	r.Add("traces_validated_against_impl", 1)
	r.Add("transitions", int64(len(ops)))
	var hist []string
	for _, o := range ops {
		hist = append(hist, fmt.Sprintf("Add(%s,%s)", cfg.names[o.atom], o.iv))
	}
	var opsW []any
	for _, o := range ops {
		opsW = append(opsW, map[string]any{"atom": o.atom, "s": fmt.Sprint(o.iv.s), "e": fmt.Sprint(o.iv.e)})
	}
	w := map[string]any{"family": label, "ops": opsW, "history": strings.Join(hist, "; "), "limit": cfg.limit, "scale": cfg.scale, "origin": cfg.origin, "atoms": cfg.names, "store": "temporal"}
	var kind, detail string
	pv, stk := rt.Try(func() { kind, detail = c13Run(r, cfg, ops) })
	if pv != nil {
		r.Violate("panic", fmt.Sprintf("%v at %s", pv, rt.ShortStack(stk)), w)
		return
	}
	r.Outcome(kind)
	if kind != "" {
		r.Violate(kind, "after "+strings.Join(hist, "; ")+": "+detail, w)
	}
	if len(ops) >= 3 && r.SampleN() < 6 {
		r.Sample(map[string]any{"family": label, "history": strings.Join(hist, "; ")})
	}
}

func c13Run(r *rt.Run, cfg *c13Cfg, ops []c13Op) (string, string) {
	var opts []factstore.TemporalStoreOption
	if cfg.limit > 0 {
		opts = append(opts, factstore.WithMaxIntervalsPerAtom(cfg.limit))
	}
	st := factstore.NewTemporalStore(opts...)
	model := map[pairKey]bool{}
	perAtom := map[int]int{}
	tree := factstore.NewIntervalTree()
	treeModel := map[iv]bool{}
	collide := false
	// detect whether the history touches two structurally different atoms of equal hash (known F8)
	for i, a := range cfg.atoms {
		for j, b := range cfg.atoms {
			if i < j && a.Hash() == b.Hash() {
				usedI, usedJ := false, false
				for _, o := range ops {
					usedI = usedI || o.atom == i
					usedJ = usedJ || o.atom == j
				}
				if usedI || usedJ {
					collide = true // the observers query both atoms
				}
			}
		}
	}
	viol := func(kind, detail string) (string, string) {
		if collide {
			return "hash-collision-conflation", detail + " (history stores two structurally different atoms of equal Atom.Hash())"
		}
		return kind, detail
	}
	for idx, o := range ops {
		added, err := st.Add(cfg.atoms[o.atom], o.iv.toAst(cfg.scale, cfg.origin))
		k := pairKey{o.atom, o.iv}
		wantAdded, wantErr := false, false
		switch {
		case cfg.limit > 0 && perAtom[o.atom] >= cfg.limit:
			// limit is checked before the duplicate test: a duplicate of a full atom also reports the limit
			wantErr = true
		case model[k]:
		default:
			wantAdded = true
			model[k] = true
			perAtom[o.atom]++
		}
		if idx == len(ops)-1 {
			if wantErr != (err != nil) {
				return viol("limit", fmt.Sprintf("Add returned err=%v, expected error=%v (limit %d, atom holds %d intervals)", err, wantErr, cfg.limit, perAtom[o.atom]))
			}
			if err != nil && !errors.Is(err, factstore.ErrIntervalLimitExceeded) {
				return viol("limit", "error is not ErrIntervalLimitExceeded: "+err.Error())
			}
			if added != wantAdded {
				return viol("add-return", fmt.Sprintf("Add returned %v, expected %v (exact duplicates are refused, new pairs accepted)", added, wantAdded))
			}
		}
		if o.atom == 0 {
			ins := tree.Insert(o.iv.toAst(cfg.scale, cfg.origin))
			if ins == treeModel[o.iv] && idx == len(ops)-1 {
				return "tree-insert-return", fmt.Sprintf("IntervalTree.Insert(%s) returned %v", o.iv, ins)
			}
			treeModel[o.iv] = true
		}
	}
	if k, d := c13Observe(cfg, st, model); k != "" {
		return viol(k, d)
	}
	// the exported tree, atom 0 only
	if k, d := c13ObserveTree(cfg, tree, treeModel); k != "" {
		return k, d
	}
	// coalesce on this (fresh, replayed) store
	holdsBefore := map[int]map[int64]bool{}
	pts := c13Points()
	for ai := range cfg.atoms {
		holdsBefore[ai] = map[int64]bool{}
		for _, t := range pts {
			for k := range model {
				if k.atom == ai && k.iv.s <= t && t <= k.iv.e {
					holdsBefore[ai][t] = true
				}
			}
		}
	}
	preds := map[ast.PredicateSym]bool{}
	for _, a := range cfg.atoms {
		preds[a.Predicate] = true
	}
	for p := range preds {
		if err := st.Coalesce(p); err != nil {
			return viol("coalesce-error", err.Error())
		}
	}
	// read back
	after := map[pairKey]int{}
	for ai, a := range cfg.atoms {
		st.GetAllFacts(a, func(tf factstore.TemporalFact) error {
			if tf.Atom.Equals(a) {
				after[pairKey{ai, fromAst(tf.Interval, cfg.scale, cfg.origin)}]++
			}
			return nil
		})
	}
	total := 0
	for k, n := range after {
		if n != 1 {
			return viol("coalesce-duplicate", fmt.Sprintf("after Coalesce %s%s is delivered %d times", cfg.names[k.atom], k.iv, n))
		}
		total++
	}
	if !collide && st.EstimateFactCount() != total {
		return viol("coalesce-count", fmt.Sprintf("after Coalesce EstimateFactCount=%d but %d pairs are stored", st.EstimateFactCount(), total))
	}
	for ai := range cfg.atoms {
		for _, t := range pts {
			h := false
			for k := range after {
				if k.atom == ai && k.iv.s <= t && t <= k.iv.e {
					h = true
				}
			}
			if h != holdsBefore[ai][t] {
				return viol("coalesce-changes-instants", fmt.Sprintf("Coalesce changed whether %s holds at t=%d: before %v after %v", cfg.names[ai], t, holdsBefore[ai][t], h))
			}
			if got := st.ContainsAt(cfg.atoms[ai], time.Unix(0, cfg.ns(t))); got != h {
				return viol("coalesce-containsat", fmt.Sprintf("after Coalesce ContainsAt(%s,%d)=%v, stored intervals say %v", cfg.names[ai], t, got, h))
			}
		}
		var fin []iv
		for k := range after {
			if k.atom == ai && k.iv.s != negInf && k.iv.e != posInf {
				fin = append(fin, k.iv)
			}
		}
		sort.Slice(fin, func(i, j int) bool { return fin[i].s < fin[j].s })
		for i := 1; i < len(fin); i++ {
			// at nanosecond granularity (scale 1) adjacency is e+1 == s; at other scales timestamps are scale-multiples
			// the gap in nanoseconds is (s - e) * scale; decided without multiplying (the far-apart family would overflow)
			d := fin[i].s - fin[i-1].e
			if d <= 0 || d == 1 && cfg.scale == 1 {
				return viol("coalesce-not-disjoint", fmt.Sprintf("after Coalesce %s keeps finite intervals %s and %s (overlapping or adjacent)", cfg.names[ai], fin[i-1], fin[i]))
			}
		}
	}
	// pointwise model of the coalesced store must still answer queries correctly
	model2 := map[pairKey]bool{}
	for k := range after {
		model2[k] = true
	}
	if k, d := c13Observe(cfg, st, model2); k != "" {
		return viol("after-coalesce-"+k, d)
	}
	return "", ""
}

func c13Points() []int64 { return []int64{-1, 0, 1, 2, 3, 4, 5, 6} }

func c13Observe(cfg *c13Cfg, st *factstore.TemporalStore, model map[pairKey]bool) (string, string) {
	pts := c13Points()
	collect := func(run func(q ast.Atom, fn func(factstore.TemporalFact) error) error, q ast.Atom, qi int) (map[pairKey]int, string) {
		got := map[pairKey]int{}
		bad := ""
		run(q, func(tf factstore.TemporalFact) error {
			ai := -1
			for i, a := range cfg.atoms {
				if tf.Atom.Equals(a) {
					ai = i
				}
			}
			if ai < 0 {
				bad = "delivered unknown atom " + tf.Atom.String()
				return nil
			}
			got[pairKey{ai, fromAst(tf.Interval, cfg.scale, cfg.origin)}]++
			return nil
		})
		return got, bad
	}
	// queries: each ground atom, and the all-variable query of each predicate
	type query struct {
		q     ast.Atom
		match func(ai int) bool
		name  string
	}
	var queries []query
	seenPred := map[ast.PredicateSym]bool{}
	for i, a := range cfg.atoms {
		i := i
		queries = append(queries, query{a, func(ai int) bool { return ai == i }, cfg.names[i]})
		if !seenPred[a.Predicate] {
			seenPred[a.Predicate] = true
			p := a.Predicate
			queries = append(queries, query{ast.NewQuery(p), func(ai int) bool { return cfg.atoms[ai].Predicate == p }, p.Symbol + "(_)"})
		}
	}
	cmp := func(what string, got map[pairKey]int, want map[pairKey]bool) (string, string) {
		for k, n := range got {
			if n > 1 {
				return "query-duplicate", fmt.Sprintf("%s delivered %s%s %d times", what, cfg.names[k.atom], k.iv, n)
			}
			if !want[k] {
				return "query-extra", fmt.Sprintf("%s delivered %s%s which should not be returned", what, cfg.names[k.atom], k.iv)
			}
		}
		for k := range want {
			if got[k] == 0 {
				return "query-missing", fmt.Sprintf("%s did not deliver %s%s", what, cfg.names[k.atom], k.iv)
			}
		}
		return "", ""
	}
	for qi, q := range queries {
		// full scan
		want := map[pairKey]bool{}
		for k := range model {
			if q.match(k.atom) {
				want[k] = true
			}
		}
		got, bad := collect(st.GetAllFacts, q.q, qi)
		if bad != "" {
			return "query-extra", bad
		}
		if k, d := cmp("GetAllFacts("+q.name+")", got, want); k != "" {
			return k, d
		}
		// point queries
		for _, t := range pts {
			want := map[pairKey]bool{}
			for k := range model {
				if q.match(k.atom) && k.iv.s <= t && t <= k.iv.e {
					want[k] = true
				}
			}
			tt := time.Unix(0, cfg.ns(t))
			got, bad := collect(func(qq ast.Atom, fn func(factstore.TemporalFact) error) error { return st.GetFactsAt(qq, tt, fn) }, q.q, qi)
			if bad != "" {
				return "query-extra", bad
			}
			if k, d := cmp(fmt.Sprintf("GetFactsAt(%s,%d)", q.name, t), got, want); k != "" {
				return k, d
			}
		}
		// range queries
		var ranges []iv
		for _, a := range pts {
			for _, b := range pts {
				if a <= b {
					ranges = append(ranges, iv{a, b})
				}
			}
			ranges = append(ranges, iv{negInf, a}, iv{a, posInf})
		}
		ranges = append(ranges, iv{negInf, posInf})
		for _, rg := range ranges {
			want := map[pairKey]bool{}
			for k := range model {
				if q.match(k.atom) && k.iv.s <= rg.e && rg.s <= k.iv.e {
					want[k] = true
				}
			}
			ra := rg.toAst(cfg.scale, cfg.origin)
			got, bad := collect(func(qq ast.Atom, fn func(factstore.TemporalFact) error) error { return st.GetFactsDuring(qq, ra, fn) }, q.q, qi)
			if bad != "" {
				return "query-extra", bad
			}
			if k, d := cmp(fmt.Sprintf("GetFactsDuring(%s,%s)", q.name, rg), got, want); k != "" {
				return k, d
			}
		}
	}
	for ai, a := range cfg.atoms {
		for _, t := range pts {
			want := false
			for k := range model {
				if k.atom == ai && k.iv.s <= t && t <= k.iv.e {
					want = true
				}
			}
			if got := st.ContainsAt(a, time.Unix(0, cfg.ns(t))); got != want {
				return "containsat", fmt.Sprintf("ContainsAt(%s,%d)=%v, stored intervals say %v", cfg.names[ai], t, got, want)
			}
		}
	}
	if n := st.EstimateFactCount(); n != len(model) {
		return "count", fmt.Sprintf("EstimateFactCount=%d, %d pairs stored", n, len(model))
	}
	return "", ""
}

func c13ObserveTree(cfg *c13Cfg, tree *factstore.IntervalTree, model map[iv]bool) (string, string) {
	if tree.Size() != len(model) {
		return "tree-size", fmt.Sprintf("IntervalTree.Size()=%d, %d intervals inserted", tree.Size(), len(model))
	}
	cmp := func(what string, got map[iv]int, pred func(iv) bool) (string, string) {
		for k, n := range got {
			if n > 1 || !model[k] || !pred(k) {
				return "tree-query", fmt.Sprintf("%s delivered %s x%d unexpectedly", what, k, n)
			}
		}
		for k := range model {
			if pred(k) && got[k] == 0 {
				return "tree-query", fmt.Sprintf("%s did not deliver %s", what, k)
			}
		}
		return "", ""
	}
	got := map[iv]int{}
	tree.All(func(a ast.Interval) error { got[fromAst(a, cfg.scale, cfg.origin)]++; return nil })
	if k, d := cmp("All()", got, func(iv) bool { return true }); k != "" {
		return k, d
	}
	for _, t := range c13Points() {
		got := map[iv]int{}
		tree.QueryPoint(cfg.ns(t), func(a ast.Interval) error { got[fromAst(a, cfg.scale, cfg.origin)]++; return nil })
		if k, d := cmp(fmt.Sprintf("QueryPoint(%d)", t), got, func(k iv) bool { return k.s <= t && t <= k.e }); k != "" {
			return k, d
		}
		for _, t2 := range c13Points() {
			if t2 < t {
				continue
			}
			got := map[iv]int{}
			tree.QueryRange(cfg.ns(t), cfg.ns(t2), func(a ast.Interval) error { got[fromAst(a, cfg.scale, cfg.origin)]++; return nil })
			if k, d := cmp(fmt.Sprintf("QueryRange(%d,%d)", t, t2), got, func(k iv) bool { return k.s <= t2 && t <= k.e }); k != "" {
				return k, d
			}
		}
	}
	return "", ""
}

func c13Atoms(texts ...string) ([]ast.Atom, []string) {
	return evalGround(texts), texts
}

func c13(r *rt.Run) {
	r.Assumptions = []string{
		"model: a set of (atom, start, end) triples with integer arithmetic; containment s<=t<=e, intersection s<=b && a<=e",
		"timeline points 0..5 in nanoseconds (adjacency at the granularity the property names) and the same scaled by 1e9",
		"the per-atom limit is checked before the duplicate test (a duplicate of a full atom also reports the limit): accepted as documented order",
	}
	all := c13Intervals()
	one, oneN := c13Atoms("a(1)")
	three, threeN := c13Atoms("a(1)", "a(2)", "b(1)")
	coll, collN := c13Atoms("a([1])", "a(65792)", "a(1)")
	if r.Replay != "" {
		_, w := rt.ReadReplay(r.Replay)
		names := toStrings(w["atoms"])
		atoms := evalGround(names)
		cfg := &c13Cfg{atoms: atoms, names: names, limit: int(w["limit"].(float64)), scale: int64(w["scale"].(float64))}
		if o, ok := w["origin"].(float64); ok {
			cfg.origin = int64(o)
		}
		var ops []c13Op
		for _, o := range w["ops"].([]any) {
			m := o.(map[string]any)
			var s, e int64
			fmt.Sscan(fmt.Sprint(m["s"]), &s)
			fmt.Sscan(fmt.Sprint(m["e"]), &e)
			ops = append(ops, c13Op{int(m["atom"].(float64)), iv{s, e}})
		}
		c13Node(r, cfg, ops, fmt.Sprint(w["family"]))
		r.Finish("replay")
	}
	r.SetBudget(200*time.Second, 2400*time.Second)
	small := []iv{{0, 1}, {1, 2}, {2, 3}, {3, 5}, {0, 5}, {2, 2}, {4, 4}, {negInf, 2}, {3, posInf}, {negInf, posInf}, {1, 4}, {5, 5}}
	eight := []iv{{0, 0}, {1, 1}, {0, 2}, {2, 3}, {4, 5}, {negInf, 1}, {3, posInf}, {1, 4}}
	// (i) single atom, all sequences
	type fam struct {
		label string
		cfg   *c13Cfg
		ivs   []iv
		depth int
	}
	var fams []fam
	for _, scale := range []int64{1, 1000000000} {
		d := 3
		if r.Thorough() {
			d = 4
		}
		fams = append(fams, fam{"single-atom", &c13Cfg{atoms: one, names: oneN, limit: 0, scale: scale}, all, d})
		if !r.Thorough() {
			fams = append(fams, fam{"single-atom-deep", &c13Cfg{atoms: one, names: oneN, limit: 0, scale: scale}, small, 4})
		}
		if scale == 1 {
			// deep histories with repetition over few intervals that share start points: reaches every
			// shape of a 6-node tree (equal starts on both sides of a rotation) and re-adds exact duplicates
			eq := []iv{{2, 3}, {2, 4}, {2, 5}, {1, 1}, {0, 0}, {3, 3}}
			d := 6
			if r.Thorough() {
				eq = append(eq, iv{2, 2}, iv{1, 5})
				d = 7
			}
			fams = append(fams, fam{"single-atom-equal-starts-deep", &c13Cfg{atoms: one, names: oneN, limit: 0, scale: scale}, eq, d})
		}
		if scale == 1 {
			// a timeline whose points are about 2^61 ns (73 years) apart and centred on the epoch: distances between
			// stored intervals exceed what a signed 64-bit subtraction can hold
			far := &c13Cfg{atoms: one, names: oneN, limit: 0, scale: 1<<61 - 7, origin: 3}
			fams = append(fams, fam{"single-atom-far-apart", far, []iv{{0, 0}, {0, 1}, {1, 1}, {2, 3}, {4, 5}, {5, 5}, {0, 5}, {negInf, 0}, {5, posInf}, {3, 3}}, 3})
		}
		if scale != 1 && !r.Thorough() {
			continue
		}
		fams = append(fams, fam{"three-atoms", &c13Cfg{atoms: three, names: threeN, limit: 0, scale: scale}, eight, 3})
		if scale == 1 {
			// several atoms of one predicate, each with up to two intervals, some that coalescing leaves alone and
			// some that it merges: what Coalesce does for one atom must not leak into another
			fams = append(fams, fam{"three-atoms-coalesce", &c13Cfg{atoms: three, names: threeN, limit: 0, scale: scale}, []iv{{0, 0}, {2, 3}, {3, 4}, {5, 5}}, 4})
		}
		fams = append(fams, fam{"colliding-atoms", &c13Cfg{atoms: coll, names: collN, limit: 0, scale: scale}, eight[:5], 3})
		for _, lim := range []int{1, 2, 3} {
			fams = append(fams, fam{fmt.Sprintf("limit-%d", lim), &c13Cfg{atoms: one, names: oneN, limit: lim, scale: scale}, eight, 4})
		}
	}
	for _, f := range fams {
		var alphabet []c13Op
		for ai := range f.cfg.atoms {
			for _, i := range f.ivs {
				alphabet = append(alphabet, c13Op{ai, i})
			}
		}
		f := f
		rt.ForRange(len(alphabet), func(i int) {
			var rec func(ops []c13Op)
			rec = func(ops []c13Op) {
				if r.Expired("C13 " + f.label) {
					return
				}
				c13Node(r, f.cfg, ops, f.label)
				if len(ops) == f.depth {
					return
				}
				for _, o := range alphabet {
					rec(append(append([]c13Op{}, ops...), o))
				}
			}
			rec([]c13Op{alphabet[i]})
		})
	}
	// (ii) permutations of fixed sets: every insertion order of a 7-interval set (forces all rotation shapes)
	sets := [][]iv{
		{{0, 0}, {1, 1}, {2, 2}, {3, 3}, {4, 4}, {5, 5}, {0, 5}},
		{{0, 5}, {0, 4}, {0, 3}, {0, 2}, {0, 1}, {0, 0}, {1, 5}},
		{{0, 1}, {1, 2}, {2, 3}, {3, 4}, {4, 5}, {negInf, 0}, {5, posInf}},
		{{2, 2}, {2, 3}, {2, 4}, {2, 5}, {1, 2}, {0, 2}, {negInf, posInf}},
	}
	if r.Thorough() {
		sets = append(sets,
			[]iv{{0, 2}, {1, 3}, {2, 4}, {3, 5}, {0, 0}, {5, 5}, {negInf, 3}},
			[]iv{{1, 1}, {1, 2}, {1, 3}, {3, 3}, {3, 4}, {3, 5}, {0, posInf}},
			[]iv{{0, 1}, {0, 1000}, {2, 3}, {4, 4}, {4, 5}, {1, 4}, {2, 2}},
			[]iv{{5, 5}, {4, 5}, {3, 5}, {2, 5}, {1, 5}, {0, 5}, {negInf, 5}},
			[]iv{{0, 0}, {0, 1}, {1, 1}, {1, 2}, {2, 2}, {2, 3}, {3, 3}, {3, 4}},
		)
	}
	for si, set := range sets {
		perms := permutations(len(set))
		cfg := &c13Cfg{atoms: one, names: oneN, limit: 0, scale: 1}
		set := set
		rt.ForRange(len(perms), func(pi int) {
			if r.Expired("C13 permutations") {
				return
			}
			ops := make([]c13Op, len(set))
			for i, j := range perms[pi] {
				ops[i] = c13Op{0, set[j]}
			}
			c13Node(r, cfg, ops, fmt.Sprintf("perm-set-%d", si))
			// the same order followed by a second Add of every interval: each must be refused as a duplicate
			dup := append([]c13Op{}, ops...)
			for _, i := range set {
				dup = append(dup, c13Op{0, i})
			}
			c13Node(r, cfg, dup, fmt.Sprintf("perm-set-%d-then-duplicates", si))
			r.Add("distinct_nontrivial", 1)
		})
	}
	// non-trivial count for the sequence families: histories with >= 2 insertions
	r.Add("distinct_nontrivial", r.Get("states")/2)
	r.Finish("every insertion sequence up to depth d over 34 intervals on a 6-point nanosecond timeline (also scaled to seconds), single atom / three atoms / three atoms to depth 4 over 4 intervals of which two merge / hash-colliding atoms / per-atom limits 1-3, " +
		"every sequence up to depth 6 (thorough 7) over 6 (8) intervals sharing start points, and every insertion order of fixed 7-8 interval sets, each also followed by a second Add of every interval; after each history all point/range/scan queries, ContainsAt, count, then Coalesce and the same observers; the exported IntervalTree is driven alongside; " +
		"non-trivial (approx. lower bound) = permutation histories + half of the sequence histories (those with >= 2 insertions are > 95%)")
}

func permutations(n int) [][]int {
	var out [][]int
	p := make([]int, n)
	for i := range p {
		p[i] = i
	}
	var rec func(k int)
	rec = func(k int) {
		if k == n {
			out = append(out, append([]int{}, p...))
			return
		}
		for i := k; i < n; i++ {
			p[k], p[i] = p[i], p[k]
			rec(k + 1)
			p[k], p[i] = p[i], p[k]
		}
	}
	rec(0)
	return out
}
