package main

import (
	"fmt"
	"io"
	"os"
	"path/filepath"
	"sort"
	"strings"
	"time"

	"codeberg.org/TauCeti/mangle-go/ast"
	"codeberg.org/TauCeti/mangle-go/functional"
	"codeberg.org/TauCeti/mangle-go/interpreter"
	"codeberg.org/TauCeti/mangle-go/parse"

	"verifmc/oracle"
	"verifmc/rt"
)

func init() { register("C16", c16) }

var c16Files = map[string]string{
	"a.mg":       "Decl a(X) bound [/number].\na(1).\na(2).\n",
	"b.mg":       "Decl b(X) bound [/number].\nb(X) :- a(X).\nb(7).\n",
	"c.mg":       "c(X) :- a(X), X > 1.\n",
	"t.mg":       "Decl ta(X) temporal bound [/number].\nta(1)@[2024-01-01, 2024-01-05].\nta(2)@[2024-02-01, 2024-02-02].\ntb(X)@[S,E] :- ta(X)@[S,E].\n",
	"tx.mg":      "Decl tx(X) temporal descr [extensional()] bound [/number].\ntx(1)@[2024-01-01, 2024-01-20].\n",
	"tx2.mg":     "tx(1)@[2024-01-10, 2024-02-15].\ntx(2)@[2024-03-01, 2024-03-02].\ntx(1)@[2024-01-01, 2024-01-20].\n",
	"bad.mg":     "a(1) :- .\n",
	"n.mg":       "# a file that defines nothing\n",
	"cost.mg":    "cost(/k, 3).\ncost(/j, 9).\n",
	"lattice.mg": c16Lattice,
	"dup.mg":     "a(9).\n",
	"evalerr.mg": "x(Y) :- a(X), Y = fn:div(X, 0).\n",
}

// c16Lattice declares cost/2 as a lattice predicate (functional dependency, merge predicate) and derives values for it
// through a rule, so that evaluation replaces facts of an earlier fragment by merged ones.
const c16Lattice = "Decl cost(K, V) descr [fundep([K], [V]), merge([V], 'maxi')].\nDecl maxi(A, B, C) descr [mode('+', '+', '-'), deferred()].\n" +
	"maxi(A, B, C) :- A < B, C = B.\nmaxi(A, B, C) :- B <= A, C = A.\noffer(/k, 5).\noffer(/j, 2).\ncost(K, V) :- offer(K, V).\n"

type c16Cmd struct {
	kind string // define | load | pop
	arg  string
}

func (c c16Cmd) String() string {
	if c.kind == "pop" {
		return "::pop"
	}
	if c.kind == "load" {
		return "::load " + c.arg
	}
	return c.arg
}

var c16Alphabet = []c16Cmd{
	{"define", "p(1)."},
	{"define", "p(2)."},
	{"define", "q(X) :- p(X)."},
	{"define", "r(X) :- a(X)."},
	{"define", "s(X) :- nope(X)."},
	{"define", "a(5)."},
	{"define", "Decl a(X) bound [/number]."},
	{"define", "Decl zz(X) bound [/number]. zz(1)."},
	{"define", "base(0). base(4). inv(X,Y) :- base(X), Y = fn:div(100, X)."}, // accepted by analysis, fails at evaluation
	{"define", "ev(Y) :- a(X), Y = fn:div(6, fn:minus(X, 1))."},              // fails at evaluation only when a(1) is live
	{"load", "a.mg"},
	{"load", "b.mg"},
	{"load", "c.mg"},
	{"load", "t.mg"},
	{"load", "a.mg,b.mg"},
	{"load", "tx.mg"},
	{"load", "tx2.mg"},
	{"define", "tx(1)@[2024-01-15, 2024-03-01]."},
	{"load", "bad.mg"},
	{"load", "dup.mg"},
	{"load", "evalerr.mg"},
	{"pop", ""},
	{"load", "n.mg"},
	{"load", "cost.mg"},
	{"load", "lattice.mg"},
	{"define", strings.ReplaceAll(strings.TrimSpace(c16Lattice), "\n", " ")},
	{"define", "expensive(K) :- cost(K, V), V > 2."},
}

// c16ReloadAlpha: a path set that can be live more than once (facts for an extensional predicate another file declares,
// a file that defines nothing) with pops in between and after.
var c16ReloadAlpha = []int{15, 16, 22, 21, 0}

// c16LatticeAlpha: the commands around a lattice predicate and a file that can be loaded any number of times.
var c16LatticeAlpha = []int{22, 23, 24, 25, 26, 0, 21}

var c16Small = []int{0, 2, 3, 6, 8, 10, 11, 13, 15, 16, 17, 19, 21} // p(1), q, r, Decl a, base/inv, load a, load b, load t, load tx, load tx2, define tx, load dup, pop

var c16Preds = []string{"p", "q", "r", "s", "a", "b", "c", "x", "ta", "tb", "nope", "zz", "base", "inv", "ev", "tx", "cost", "offer", "expensive"}

type c16State struct {
	loaded      []string // live loaded pathsets
	interactive []string // live accepted interactive clause texts
}

func (s c16State) clone() c16State {
	return c16State{append([]string{}, s.loaded...), append([]string{}, s.interactive...)}
}

func c16Apply(it *interpreter.Interpreter, c c16Cmd, rawAPI bool) (err error) {
	switch c.kind {
	case "define":
		if rawAPI {
			return it.Define(c.arg)
		}
		return it.VerifDefineLikeLoop(c.arg)
	case "load":
		return it.Load(c.arg)
	case "pop":
		it.Pop()
	}
	return nil
}

// c16Fresh builds a fresh interpreter holding exactly the live fragments of s.
func c16Fresh(root string, s c16State) (*interpreter.Interpreter, error) {
	it := interpreter.New(io.Discard, root, nil)
	for _, l := range s.loaded {
		if err := it.Load(l); err != nil {
			return nil, fmt.Errorf("reference replay: load %s: %v", l, err)
		}
	}
	for _, d := range s.interactive {
		if err := it.VerifDefineLikeLoop(d); err != nil {
			return nil, fmt.Errorf("reference replay: define %s: %v", d, err)
		}
	}
	return it, nil
}

// c16Observe returns the observation vector: per predicate name "absent" or the sorted set of results.
func c16Observe(it *interpreter.Interpreter) []string {
	var out []string
	for _, p := range c16Preds {
		q, err := it.ParseQuery(p)
		if err != nil {
			out = append(out, p+": unknown")
			continue
		}
		res, err := it.Query(q)
		if err != nil {
			out = append(out, p+": query error "+err.Error())
			continue
		}
		var items []string
		for _, t := range res {
			switch x := t.(type) {
			case ast.Atom:
				k, _ := oracle.AtomKeyOf(x)
				items = append(items, k)
			case ast.TemporalAtom:
				k, _ := oracle.AtomKeyOf(x.Atom)
				iv := ""
				if x.Interval != nil {
					iv = x.Interval.String()
				}
				items = append(items, k+iv)
			default:
				items = append(items, t.String())
			}
		}
		sort.Strings(items)
		// duplicates are reported as such
		out = append(out, p+": {"+strings.Join(items, " ")+"}")
	}
	return out
}

func c16(r *rt.Run) {
	r.Assumptions = []string{
		"differential oracle: a fresh interpreter that loads only the live fragments implied by the documented stack discipline (load pops the interactive part first; pop drops the interactive part if any, else the last loaded fragment)",
		"whether a command succeeds is itself decided on the fresh replay; definitions are issued the way Loop issues them (VerifDefineLikeLoop, added to package interpreter by build overlay), the raw Define API is a second variant in the thorough tier",
	}
	root, err := os.MkdirTemp("", "verif-c16-")
	if err != nil {
		panic(err)
	}
	defer os.RemoveAll(root)
	for n, txt := range c16Files {
		os.WriteFile(filepath.Join(root, n), []byte(txt), 0o644)
	}
	// guard: the hook mirrors Loop; if Loop no longer contains those lines, say so (harness error, not a violation)
	if src, err := os.ReadFile(repoDir() + "/interpreter/interpreter.go"); err == nil {
		for _, part := range strings.Split(interpreter.VerifLoopSource, "|") {
			if !strings.Contains(string(src), part) {
				fmt.Fprintf(os.Stderr, "harness note: Loop no longer contains %q; VerifDefineLikeLoop may not mirror it\n", part)
			}
		}
	}
	if r.Replay != "" {
		_, w := rt.ReadReplay(r.Replay)
		var hist []c16Cmd
		for _, o := range w["cmds"].([]any) {
			m := o.(map[string]any)
			hist = append(hist, c16Cmd{fmt.Sprint(m["kind"]), fmt.Sprint(m["arg"])})
		}
		c16History(r, root, hist, fmt.Sprint(w["api"]) == "raw")
		os.RemoveAll(root)
		r.Finish("replay")
	}
	r.SetBudget(240*time.Second, 3000*time.Second)
	depth := 4
	alphabet := c16Alphabet
	var firsts []int
	for i := range alphabet {
		firsts = append(firsts, i)
	}
	type job struct{ a, b int }
	var jobs []job
	for a := range alphabet {
		for b := range alphabet {
			jobs = append(jobs, job{a, b})
		}
	}
	run := func(alpha []c16Cmd, depth int, raw bool) {
		var jobs []job
		for a := range alpha {
			c16History(r, root, []c16Cmd{alpha[a]}, raw)
			for b := range alpha {
				jobs = append(jobs, job{a, b})
			}
		}
		rt.ForRange(len(jobs), func(i int) {
			var rec func(h []c16Cmd)
			rec = func(h []c16Cmd) {
				if r.Expired("C16 history search") {
					return
				}
				if len(h) == depth {
					c16History(r, root, h, raw)
					return
				}
				// prefixes are covered: c16History checks after every command of the history
				for _, c := range alpha {
					rec(append(append([]c16Cmd{}, h...), c))
				}
			}
			rec([]c16Cmd{alpha[jobs[i].a], alpha[jobs[i].b]})
		})
	}
	if r.Thorough() {
		run(alphabet, 4, false)
		var small []c16Cmd
		for _, i := range c16Small {
			small = append(small, alphabet[i])
		}
		run(small, 6, false)
		run(small, 4, true)
		var lat []c16Cmd
		for _, i := range c16LatticeAlpha {
			lat = append(lat, alphabet[i])
		}
		run(lat, 7, false)
		var rel []c16Cmd
		for _, i := range c16ReloadAlpha {
			rel = append(rel, alphabet[i])
		}
		run(rel, 8, false)
	} else {
		var small []c16Cmd
		for _, i := range c16Small {
			small = append(small, alphabet[i])
		}
		run(alphabet, 3, false)
		run(small, 4, false)
		var lat []c16Cmd
		for _, i := range c16LatticeAlpha {
			lat = append(lat, alphabet[i])
		}
		run(lat, 5, false)
		var rel []c16Cmd
		for _, i := range c16ReloadAlpha {
			rel = append(rel, alphabet[i])
		}
		run(rel, 6, false)
	}
	_ = depth
	_ = firsts
	_ = jobs
	os.RemoveAll(root)
	r.Finish("every command history up to depth d over 27 commands (a sub-alphabet of 7 around a lattice predicate with a merge predicate whose rule improves facts of an earlier fragment, and a file that defines nothing and can be loaded repeatedly, to depth 5 (thorough 7), a sub-alphabet of 5 around a path set that is live more than once (a declaring file, a facts file for it, the empty file, a define, pop) to depth 6 (thorough 8); 11 defines incl. a temporal fact that extends a loaded extensional temporal predicate, 10 loads incl. two files for that predicate with overlapping intervals; incl. declarations, a rejected one, a redefinition and two that pass analysis and fail at evaluation, 8 loads incl. parse error, redefinition, evaluation error, temporal file, multi-file pathset; pop), each on a fresh interpreter; " +
		"after every command: success/failure and the answers to 11 predicate queries are compared with a fresh interpreter that loads only the live fragments; states = distinct histories, non-trivial = histories with a pop or a failed command")
}

// c16History runs one history; after every command compares with the fresh replay of the live fragments.
func c16History(r *rt.Run, root string, hist []c16Cmd, raw bool) {
	r.Add("states", 1)
	r.Add("evaluations", 1)
	var names []string
	var cmdsW []any
	for _, c := range hist {
		names = append(names, c.String())
		cmdsW = append(cmdsW, map[string]any{"kind": c.kind, "arg": c.arg})
	}
	api := "loop"
	if raw {
		api = "raw"
	}
	w := map[string]any{"cmds": cmdsW, "history": strings.Join(names, " ; "), "api": api}
	nontrivial := false
	pv, stk := rt.Try(func() {
		it := interpreter.New(io.Discard, root, nil)
		st := c16State{}
		for step, c := range hist {
			r.Add("transitions", 1)
			// expected success: the command on a fresh replay of the live fragments
			ref, err := c16Fresh(root, st)
			if err != nil {
				r.Violate("reference-replay-failed", fmt.Sprintf("after %s: %v", strings.Join(names[:step], " ; "), err), w)
				return
			}
			before := c16Observe(it)
			var refErr error
			refPanic, _ := rt.Try(func() { refErr = c16Apply(ref, c, raw) })
			gotErr := c16Apply(it, c, raw)
			if refPanic != nil {
				r.Violate("panic-on-fresh-interpreter", fmt.Sprintf("%s on a fresh replay panicked: %v", c, refPanic), w)
				return
			}
			// new live state by the documented discipline
			next := st.clone()
			switch c.kind {
			case "define":
				if refErr == nil {
					next.interactive = append(next.interactive, c.arg)
				}
			case "load":
				next.interactive = nil
				if refErr == nil {
					next.loaded = append(next.loaded, c.arg)
				}
			case "pop":
				nontrivial = true
				if len(next.interactive) > 0 {
					next.interactive = nil
				} else if len(next.loaded) > 0 {
					next.loaded = next.loaded[:len(next.loaded)-1]
				}
			}
			if refErr != nil {
				nontrivial = true
			}
			prefix := strings.Join(names[:step+1], " ; ")
			if (gotErr == nil) != (refErr == nil) {
				r.Violate("command-outcome-differs", fmt.Sprintf("after [%s]: the command returned err=%v, on a fresh interpreter holding the live fragments it returns err=%v", prefix, gotErr, refErr), w)
				return
			}
			got := c16Observe(it)
			if refErr != nil && c.kind == "define" {
				// a rejected definition leaves the visible state unchanged
				if strings.Join(got, "|") != strings.Join(before, "|") {
					r.Violate("rejected-define-changes-state", fmt.Sprintf("after [%s]: rejected definition changed the visible state: %s", prefix, diffObs(before, got)), w)
					return
				}
			}
			// compare with a fresh interpreter holding the new live state
			ref2, err := c16Fresh(root, next)
			if err != nil {
				r.Violate("reference-replay-failed", fmt.Sprintf("after [%s]: %v", prefix, err), w)
				return
			}
			want := c16Observe(ref2)
			r.Add("traces_validated_against_impl", 1)
			if strings.Join(got, "|") != strings.Join(want, "|") {
				kind := "state-differs-from-fresh-replay"
				if c.kind == "pop" {
					kind = "pop-state-differs-from-fresh-replay"
				} else if refErr != nil {
					kind = "failed-" + c.kind + "-state-differs-from-fresh-replay"
				}
				r.Violate(kind, fmt.Sprintf("after [%s]: %s (live fragments: loaded=%v interactive=%v)", prefix, diffObs(want, got), next.loaded, next.interactive), w)
				return
			}
			// absolute oracle for predicates that only ever receive facts (no rules anywhere in the alphabet): the visible
			// facts are the union of the facts written in the live fragments. The differential comparison above cannot see
			// a defect that loses a fact in the same way on the fresh replay (e.g. when stacking two fragments).
			if d := c16FactUnion(next, got); d != "" {
				r.Violate("live-facts-not-the-union-of-the-live-fragments", fmt.Sprintf("after [%s]: %s (live fragments: loaded=%v interactive=%v)", prefix, d, next.loaded, next.interactive), w)
				return
			}
			r.Outcome(strings.Join(got, "|"))
			st = next
		}
	})
	if pv != nil {
		r.Violate("panic", fmt.Sprintf("history [%s]: %v at %s", strings.Join(names, " ; "), pv, rt.ShortStack(stk)), w)
	}
	if nontrivial {
		r.Add("distinct_nontrivial", 1)
		if r.SampleN() < 6 && len(hist) >= 3 {
			r.Sample(map[string]any{"history": strings.Join(names, " ; ")})
		}
	}
}

// c16FactOnlyPreds are predicates for which no command of the alphabet has a rule.
var c16FactOnlyPreds = []string{"tx", "p", "zz"}

// c16FactUnion compares the observed answers for the fact-only predicates with the union of the facts written in
// the live fragments (files of the loaded path sets and accepted interactive definitions).
func c16FactUnion(st c16State, obs []string) string {
	var texts []string
	for _, l := range st.loaded {
		for _, f := range strings.Split(l, ",") {
			texts = append(texts, c16Files[f])
		}
	}
	texts = append(texts, st.interactive...)
	for _, pred := range c16FactOnlyPreds {
		want := map[string]bool{}
		for _, t := range texts {
			u, err := parse.Unit(strings.NewReader(t))
			if err != nil {
				continue
			}
			for _, c := range u.Clauses {
				if c.Head.Predicate.Symbol != pred || len(c.Premises) > 0 {
					continue
				}
				head, err := functional.EvalAtom(c.Head, nil)
				if err != nil {
					continue
				}
				k, _ := oracle.AtomKeyOf(head)
				if c.HeadTime != nil {
					k += c.HeadTime.String()
				}
				want[k] = true
			}
		}
		var items []string
		for k := range want {
			items = append(items, k)
		}
		sort.Strings(items)
		expect := pred + ": {" + strings.Join(items, " ") + "}"
		for _, o := range obs {
			if !strings.HasPrefix(o, pred+": ") {
				continue
			}
			if len(want) == 0 {
				break // nothing live mentions it: unknown or empty, judged by the differential comparison
			}
			// the observation may list a fact twice (set semantics are C06's subject); compare as sets
			gotSet := map[string]bool{}
			inner := strings.TrimSuffix(strings.TrimPrefix(o, pred+": {"), "}")
			_ = inner
			if o != expect && !sameItems(o, expect) {
				return fmt.Sprintf("the live fragments write %s but the interpreter answers %s", expect, o)
			}
			_ = gotSet
		}
	}
	return ""
}

// sameItems compares two observation strings "pred: {a b c}" as sets of items (items contain no spaces inside
// keys except within interval annotations, which are kept attached by splitting on " " only between "} " groups).
func sameItems(a, b string) bool {
	norm := func(s string) string {
		i := strings.Index(s, "{")
		if i < 0 {
			return s
		}
		body := strings.TrimSuffix(s[i+1:], "}")
		// items are separated by a single space followed by the predicate symbol of the key
		parts := strings.Split(body, " "+s[:strings.Index(s, ":")]+"/")
		set := map[string]bool{}
		for j, p := range parts {
			if j > 0 {
				p = s[:strings.Index(s, ":")] + "/" + p
			}
			set[p] = true
		}
		var items []string
		for k := range set {
			items = append(items, k)
		}
		sort.Strings(items)
		return strings.Join(items, "\x00")
	}
	return norm(a) == norm(b)
}

func diffObs(want, got []string) string {
	var out []string
	for i := range want {
		if want[i] != got[i] {
			out = append(out, fmt.Sprintf("expected %s, got %s", want[i], got[i]))
		}
	}
	return strings.Join(out, "; ")
}
