package main

import (
	"fmt"

	"codeberg.org/TauCeti/mangle-go/ast"
	"codeberg.org/TauCeti/mangle-go/parse"
	"codeberg.org/TauCeti/mangle-go/symbols"

	"verifmc/rt"
)

// Struct types against struct types: the second column of e and of p ranges over struct types that differ in
// one aspect at a time — a required field's type, the presence of an optional field, the type of an optional
// field present on both sides, a second optional field, nesting in a list — with all rules of the main grid and
// facts that carry / lack the optional fields.
var c11StructTypes = []string{
	"fn:Struct(/f, /number)",
	"fn:Struct(/f, /string)",
	"fn:Struct(/f, /number, fn:opt(/g, /string))",
	"fn:Struct(/f, /number, fn:opt(/g, /number))",
	"fn:Struct(/f, /number, /g, /string)",
	"fn:Struct(/f, /number, fn:opt(/g, /string), fn:opt(/h, /number))",
	"fn:Struct(/f, /number, fn:opt(/h, /number))",
	"fn:Struct()",
	"fn:List(fn:Struct(/f, /number, fn:opt(/g, /string)))",
	"fn:List(fn:Struct(/f, /number, fn:opt(/g, /number)))",
	"/any",
	// tagged unions with an empty variant in first / last place
	"fn:TaggedUnion(/kind, /quit, fn:Struct(), /move, fn:Struct(/f, /number))",
	"fn:TaggedUnion(/kind, /move, fn:Struct(/f, /number), /quit, fn:Struct())",
	"fn:TaggedUnion(/kind, /quit, fn:Struct(), /stop, fn:Struct(), /move, fn:Struct(/f, /number))",
}

func c11StructFamily(r *rt.Run) {
	one, two, s := ast.Number(1), ast.Number(2), ast.String("s")
	f, g, h := name2("/f"), name2("/g"), name2("/h")
	mk := func(kv ...*ast.Constant) ast.Constant {
		m := map[*ast.Constant]*ast.Constant{}
		for i := 0; i < len(kv); i += 2 {
			m[kv[i]] = kv[i+1]
		}
		return *ast.Struct(m)
	}
	structs := []ast.Constant{mk(&f, &one), mk(&f, &s), mk(&f, &one, &g, &s), mk(&f, &one, &g, &two), mk(&f, &one, &h, &two), mk(&f, &one, &g, &s, &h, &two), ast.StructNil}
	kind, quit, move, stop := name2("/kind"), name2("/quit"), name2("/move"), name2("/stop")
	structs = append(structs, mk(&kind, &quit), mk(&kind, &stop), mk(&kind, &move, &f, &one))
	var vals []ast.Constant
	vals = append(vals, structs...)
	for _, x := range structs[:4] {
		vals = append(vals, ast.List([]ast.Constant{x}))
	}
	vals = append(vals, ast.List([]ast.Constant{structs[2], structs[3]}))
	members := map[string][]ast.Constant{}
	for _, t := range c11StructTypes {
		bt, err := parse.BaseTerm(t)
		if err != nil {
			panic(err)
		}
		hd, err := symbols.NewSetHandle(bt)
		if err != nil {
			panic(fmt.Sprintf("%s: %v", t, err))
		}
		for _, v := range vals {
			if hd.HasType(v) {
				members[t] = append(members[t], v)
			}
		}
	}
	type job struct{ t2, s2 string }
	var jobs []job
	for _, a := range c11StructTypes {
		for _, b := range c11StructTypes {
			jobs = append(jobs, job{a, b})
		}
	}
	r.Extra["struct_family_declaration_pairs"] = len(jobs)
	rt.ForRange(len(jobs), func(ji int) {
		t2, s2 := jobs[ji].t2, jobs[ji].s2
		for _, rule := range c11Rules {
			decl := fmt.Sprintf("Decl e(A, B) bound [/number, %s].\nDecl p(A, B) bound [/any, %s].\n", t2, s2)
			if !c11Accepts(decl + rule + "\n") {
				r.Add("programs_rejected", 1)
				r.Add("states", 1)
				continue
			}
			for _, m := range members[t2] {
				c11Program(r, decl+fmt.Sprintf("e(1, %s).\n", m.String())+rule+"\n", nil)
			}
			if ms := members[t2]; len(ms) >= 2 {
				c11Program(r, decl+fmt.Sprintf("e(1, %s).\ne(2, %s).\n", ms[0].String(), ms[len(ms)-1].String())+rule+"\n", nil)
			}
		}
	})
}
