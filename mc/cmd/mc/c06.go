package main

import (
	"fmt"
	"sort"
	"strings"
	"time"

	"codeberg.org/TauCeti/mangle-go/ast"
	"codeberg.org/TauCeti/mangle-go/factstore"

	"verifmc/mg"
	"verifmc/oracle"
	"verifmc/rt"
)

func init() { register("C06", c06) }

func mustAtoms(ss ...string) []ast.Atom {
	as, err := mg.ParseAtoms(ss)
	if err != nil {
		panic(err)
	}
	// evaluate list syntax etc. into constants
	return as
}

var c06U = []string{"z()", "p(1)", "p(2)", "p([1])", "p(65792)", "q(1,2)", "q(2,1)", "q(1,[1])", "q(1,65792)", "p(\"a\")", "p(/a)", "p(1,1)"}
var c06USmall = []string{"z()", "p(1)", "p([1])", "p(65792)", "q(1,2)", "q(1,[1])", "q(1,65792)", "p(1,1)"}
var c06Base = []string{"p(1)", "q(1,2)", "b(5)"}
var c06S1 = []string{"p(1)", "q(2,1)", "r(7)"}
var c06S2 = []string{"p(2)", "p([1])", "q(1,2)"}

var c06Kinds = []string{"simple", "indexed", "multi", "multiarray", "merged", "teeing-base", "teeing-empty", "concurrent", "temporal-adapter", "temporal-adapter-at", "temporal-adapter-at-teeing", "temporal-adapter-at-overlap"}

// c06At is the instant of the time-point views of the temporal adapter.
var c06At = time.Unix(1700000000, 0).UTC()

func evalGround(ss []string) []ast.Atom {
	var out []ast.Atom
	for _, s := range ss {
		c, err := mg.Parse(s + ".")
		if err != nil {
			panic(fmt.Sprintf("%s: %v", s, err))
		}
		pi, err := mg.Analyze(s + ".")
		_ = c
		if err != nil {
			panic(fmt.Sprintf("%s: %v", s, err))
		}
		out = append(out, pi.InitialFacts...)
	}
	return out
}

type c06Op struct {
	kind string // add, remove, merge1, merge2
	atom int    // index in U
}

func (o c06Op) String(U []string) string {
	switch o.kind {
	case "add":
		return "Add(" + U[o.atom] + ")"
	case "remove":
		return "Remove(" + U[o.atom] + ")"
	}
	return o.kind
}

// setModel is the reference: base (read-only) and write part keyed by keyFn.
type setModel struct {
	keyFn     func(ast.Atom) string
	base      map[string]ast.Atom
	write     map[string]ast.Atom
	wOrder    []string
	everPreds map[ast.PredicateSym]bool
	// variants used only by the known-defect (hash-keyed) model of the temporal store:
	repLast     bool // a refused Add still replaces the stored representative
	containsRep bool // Contains compares the representative structurally
	// teeing stores: Merge writes to the write part even when the base holds the atom (the repo's own tests require it)
	mergeBypass bool
}

func (m *setModel) contains(a ast.Atom) bool {
	k := m.keyFn(a)
	if !m.visible(k) {
		return false
	}
	if m.containsRep {
		if r, ok := m.write[k]; ok {
			return structKey(r) == structKey(a)
		}
	}
	return true
}

func (m *setModel) merge(a ast.Atom) {
	if !m.mergeBypass {
		m.add(a)
		return
	}
	m.everPreds[a.Predicate] = true
	k := m.keyFn(a)
	if _, ok := m.write[k]; !ok {
		m.write[k] = a
	}
}

func newSetModel(keyFn func(ast.Atom) string, base []ast.Atom) *setModel {
	m := &setModel{keyFn: keyFn, base: map[string]ast.Atom{}, write: map[string]ast.Atom{}, everPreds: map[ast.PredicateSym]bool{}}
	for _, a := range base {
		m.base[keyFn(a)] = a
		m.everPreds[a.Predicate] = true
	}
	return m
}

func structKey(a ast.Atom) string { k, _ := oracle.AtomKeyOf(a); return k }
func hashKey(a ast.Atom) string {
	return fmt.Sprintf("%s/%d#%x", a.Predicate.Symbol, a.Predicate.Arity, a.Hash())
}

func (m *setModel) inBase(a ast.Atom) bool { _, ok := m.base[m.keyFn(a)]; return ok }

func (m *setModel) visible(k string) bool {
	_, b := m.base[k]
	_, w := m.write[k]
	return b || w
}

// add with wrapper semantics: refused when visible.
func (m *setModel) add(a ast.Atom) bool {
	m.everPreds[a.Predicate] = true
	k := m.keyFn(a)
	if m.visible(k) {
		if _, inW := m.write[k]; inW && m.repLast {
			m.write[k] = a
		}
		return false
	}
	m.write[k] = a
	return true
}

// mergeInto adds atoms of a merge source (through Add semantics).
func (m *setModel) remove(a ast.Atom) bool {
	k := m.keyFn(a)
	if _, ok := m.write[k]; ok {
		delete(m.write, k)
		return true
	}
	return false
}

func (m *setModel) atoms() []ast.Atom {
	var out []ast.Atom
	for _, a := range m.base {
		out = append(out, a)
	}
	for k, a := range m.write {
		if _, dup := m.base[k]; !dup {
			out = append(out, a)
		}
	}
	return out
}

type c06Store struct {
	kind      string
	s         factstore.FactStore
	hasRemove bool
	exact     bool // EstimateFactCount is exact
}

func c06New(kind string, base []ast.Atom) c06Store {
	switch kind {
	case "merged":
		b := factstore.NewSimpleInMemoryStore()
		for _, a := range base {
			b.Add(a)
		}
		return c06Store{kind, factstore.NewMergedStore([]factstore.ReadOnlyFactStore{b}, factstore.NewMultiIndexedArrayInMemoryStore()), true, false}
	case "teeing-base":
		b := factstore.NewSimpleInMemoryStore()
		for _, a := range base {
			b.Add(a)
		}
		return c06Store{kind, factstore.NewTeeingStore(b), true, false}
	case "teeing-empty":
		return c06Store{kind, factstore.NewTeeingStore(factstore.NewSimpleInMemoryStore()), true, false}
	case "temporal-adapter":
		return c06Store{kind, factstore.NewTemporalFactStoreAdapter(factstore.NewTemporalStore()), false, true}
	case "temporal-adapter-at":
		// the view of one instant; facts added through the adapter are eternal and therefore visible in it
		return c06Store{kind, factstore.NewTemporalFactStoreAdapterAt(factstore.NewTemporalStore(), c06At), false, true}
	case "temporal-adapter-at-teeing":
		// the same view over a teeing temporal store whose read-only base holds the base atoms (eternal)
		b := factstore.NewTemporalStore()
		for _, a := range base {
			b.AddEternal(a)
		}
		return c06Store{kind, factstore.NewTemporalFactStoreAdapterAt(factstore.NewTeeingTemporalStore(b), c06At), false, false}
	case "temporal-adapter-at-overlap":
		// the same view over a store in which every base atom holds at the instant through two overlapping
		// intervals: the view must still deliver it once
		b := factstore.NewTemporalStore()
		for _, a := range base {
			b.Add(a, ast.NewInterval(ast.NewTimestampBound(c06At.Add(-10*time.Second)), ast.NewTimestampBound(c06At.Add(5*time.Second))))
			b.Add(a, ast.NewInterval(ast.NewTimestampBound(c06At.Add(-3*time.Second)), ast.NewTimestampBound(c06At.Add(20*time.Second))))
		}
		return c06Store{kind, factstore.NewTemporalFactStoreAdapterAt(b, c06At), false, false}
	}
	s := mg.NewStore(kind)
	_, hr := s.(factstore.FactStoreWithRemove)
	return c06Store{kind, s, hr, true}
}

func c06HasBase(kind string) bool {
	return kind == "merged" || kind == "teeing-base" || kind == "temporal-adapter-at-teeing" || kind == "temporal-adapter-at-overlap"
}

type c06Env struct {
	U        []ast.Atom
	Utext    []string
	base     []ast.Atom
	s1, s2   []ast.Atom
	patterns []ast.Atom
}

func c06MakeEnv(Utext []string) *c06Env {
	e := &c06Env{Utext: Utext, U: evalGround(Utext), base: evalGround(c06Base), s1: evalGround(c06S1), s2: evalGround(c06S2)}
	// patterns: for every predicate of U∪base∪sources: all-variable query, each column fixed to each constant seen there, fully ground atoms
	all := append(append(append(append([]ast.Atom{}, e.U...), e.base...), e.s1...), e.s2...)
	seen := map[string]bool{}
	addP := func(a ast.Atom) {
		k := a.String()
		if !seen[k] {
			seen[k] = true
			e.patterns = append(e.patterns, a)
		}
	}
	for _, a := range all {
		addP(ast.NewQuery(a.Predicate))
		addP(a)
		for i := range a.Args {
			q := ast.NewQuery(a.Predicate)
			args := append([]ast.BaseTerm{}, q.Args...)
			args[i] = a.Args[i]
			addP(ast.Atom{Predicate: a.Predicate, Args: args})
		}
	}
	return e
}

func patternMatches(p, a ast.Atom) bool {
	if p.Predicate != a.Predicate {
		return false
	}
	for i, t := range p.Args {
		if c, ok := t.(ast.Constant); ok {
			if oracle.Key(c) != oracle.Key(a.Args[i].(ast.Constant)) {
				return false
			}
		}
	}
	return true
}

// c06Run replays ops on a fresh store and both models; observers are evaluated after the LAST op only
// (every prefix is its own node of the search). Returns a violation (kind, detail) or "".
func c06Run(env *c06Env, kind string, ops []c06Op) (string, string) {
	st := c06New(kind, env.base)
	var base []ast.Atom
	if c06HasBase(kind) {
		base = env.base
	}
	ref := newSetModel(structKey, base)
	hm := newSetModel(hashKey, base)
	if strings.HasPrefix(kind, "temporal-adapter") {
		hm.repLast, hm.containsRep = true, true
		if kind != "temporal-adapter" {
			hm.containsRep = false // the time-point view decides membership by ContainsAt, which looks the atom up by its hash
		}
	}
	if kind == "teeing-base" || kind == "teeing-empty" {
		ref.mergeBypass, hm.mergeBypass = true, true
	}
	hashKeyed := kind == "simple" || kind == "indexed" || kind == "multi" || strings.HasPrefix(kind, "temporal-adapter")
	var lastRet, lastRef, lastHm any
	// the stores handed to Merge stay alive: what later happens to the receiver must not show in them
	var sources []factstore.FactStore
	var sourceContent []string
	for _, op := range ops {
		switch op.kind {
		case "add":
			a := env.U[op.atom]
			lastRet = st.s.Add(a)
			lastRef = ref.add(a)
			lastHm = hm.add(a)
			if kind == "temporal-adapter-at-overlap" && ref.inBase(a) {
				// the adapter adds an eternal fact next to the finite intervals the atom already has: a new
				// (atom, interval) pair, reported as added; its return value is not judged against the view's set
				lastRet, lastRef, lastHm = nil, nil, nil
			}
		case "remove":
			a := env.U[op.atom]
			lastRet = st.s.(factstore.FactStoreWithRemove).Remove(a)
			lastRef = ref.remove(a)
			lastHm = hm.remove(a)
		case "merge1", "merge2":
			var src factstore.FactStore
			atoms := env.s1
			if op.kind == "merge1" {
				src = factstore.NewSimpleInMemoryStore()
			} else {
				src = factstore.NewIndexedInMemoryStore()
				atoms = env.s2
			}
			for _, a := range atoms {
				src.Add(a)
			}
			sources = append(sources, src)
			sourceContent = append(sourceContent, strings.Join(atomKeys(mg.Atoms(src)), "|"))
			st.s.Merge(src)
			sorted := append([]ast.Atom{}, atoms...)
			for _, a := range sorted {
				ref.merge(a)
			}
			// the hash model must add in the order the source delivers
			for _, p := range src.ListPredicates() {
				src.GetFacts(ast.NewQuery(p), func(a ast.Atom) error { hm.merge(a); return nil })
			}
			lastRet, lastRef, lastHm = nil, nil, nil
		}
	}
	for i, src := range sources {
		if now := strings.Join(atomKeys(mg.Atoms(src)), "|"); now != sourceContent[i] {
			return "merge-source-changed", fmt.Sprintf("the store that was the argument of Merge #%d changed afterwards: it held {%s} and now holds {%s}", i+1, sourceContent[i], now)
		}
	}
	// observers
	check := func(m *setModel, ret any) (string, string) {
		if ret != lastRet {
			return "return-value", fmt.Sprintf("last operation returned %v, set model says %v", lastRet, ret)
		}
		vis := m.atoms()
		for i, u := range env.U {
			want := m.contains(u)
			if got := st.s.Contains(u); got != want {
				return "contains", fmt.Sprintf("Contains(%s)=%v, set model says %v", env.Utext[i], got, want)
			}
		}
		for _, p := range env.patterns {
			want := map[string]int{}
			for _, a := range vis {
				if patternMatches(p, a) {
					want[structKey(a)]++
				}
			}
			got := map[string]int{}
			st.s.GetFacts(p, func(a ast.Atom) error { got[structKey(a)]++; return nil })
			for k, n := range got {
				_, inB := m.base[k]
				_, inW := m.write[k]
				if n > 1 && !(m.mergeBypass && inB && inW && n == 2) {
					return "getfacts-duplicate", fmt.Sprintf("GetFacts(%v) delivered %s %d times", p, k, n)
				}
				if want[k] == 0 {
					return "getfacts-extra", fmt.Sprintf("GetFacts(%v) delivered %s which is not a stored atom matching the pattern", p, k)
				}
			}
			for k := range want {
				if got[k] == 0 {
					return "getfacts-missing", fmt.Sprintf("GetFacts(%v) did not deliver stored atom %s", p, k)
				}
			}
		}
		preds := st.s.ListPredicates()
		seenP := map[ast.PredicateSym]bool{}
		for _, p := range preds {
			if seenP[p] {
				return "listpredicates-duplicate", fmt.Sprintf("ListPredicates lists %v twice", p)
			}
			seenP[p] = true
			if !m.everPreds[p] {
				return "listpredicates-foreign", fmt.Sprintf("ListPredicates lists %v which was never added", p)
			}
		}
		for _, a := range vis {
			if !seenP[a.Predicate] {
				return "listpredicates-missing", fmt.Sprintf("ListPredicates lacks %v although %v is stored", a.Predicate, a)
			}
		}
		n := st.s.EstimateFactCount()
		if st.exact {
			if n != len(vis) {
				return "count", fmt.Sprintf("EstimateFactCount=%d, set has %d atoms", n, len(vis))
			}
		} else if kind == "temporal-adapter-at-overlap" {
			if n < len(vis) {
				return "count", fmt.Sprintf("EstimateFactCount=%d below the %d visible atoms", n, len(vis))
			}
		} else if n < len(vis) || n > len(m.base)+len(m.write) {
			return "count", fmt.Sprintf("EstimateFactCount=%d outside [%d,%d]", n, len(vis), len(m.base)+len(m.write))
		}
		return "", ""
	}
	kindV, detail := check(ref, lastRef)
	if kindV == "" {
		return "", ""
	}
	if hashKeyed {
		if k2, _ := check(hm, lastHm); k2 == "" {
			return "hash-collision-conflation", detail + " (behaviour equals a set keyed by Atom.Hash())"
		}
	}
	return kindV, detail
}

func c06(r *rt.Run) {
	r.Assumptions = []string{
		"reference: Go map keyed by the structural key of the atom; wrappers: read-only part + write part, Remove acts on the write part (documented)",
		"predicates whose atoms were all removed may still be listed; EstimateFactCount exact for plain stores, within [|set|,|read|+|write|] for merged/teeing",
		"observers run in every reached state (every prefix is a node); no state deduplication; the stores passed to Merge are kept and must be unchanged at the end of the history",
	}
	envFull := c06MakeEnv(c06U)
	envSmall := c06MakeEnv(c06USmall)
	if r.Replay != "" {
		_, w := rt.ReadReplay(r.Replay)
		if fmt.Sprint(w["family"]) == "bulk" {
			kind, layout, n := fmt.Sprint(w["store"]), fmt.Sprint(w["layout"]), int(w["n"].(float64))
			if kv, d := c06BulkRun(r, kind, layout, n); kv != "" {
				r.Violate(kv, fmt.Sprintf("[%s bulk %s n=%d] %s", kind, layout, n, d), w)
			}
			r.Finish("replay")
		}
		env := envFull
		if fmt.Sprint(w["universe"]) == "small" {
			env = envSmall
		}
		var ops []c06Op
		for _, o := range w["ops"].([]any) {
			m := o.(map[string]any)
			ops = append(ops, c06Op{fmt.Sprint(m["kind"]), int(m["atom"].(float64))})
		}
		c06Node(r, env, "full", fmt.Sprint(w["store"]), ops)
		r.Finish("replay")
	}
	r.SetBudget(200*time.Second, 2400*time.Second)
	type cfg struct {
		env   *c06Env
		name  string
		depth int
	}
	cfgs := []cfg{{envFull, "full", 3}, {envSmall, "small", 4}}
	if r.Thorough() {
		cfgs = []cfg{{envFull, "full", 4}, {envSmall, "small", 5}}
	}
	for _, c := range cfgs {
		for _, kind := range c06Kinds {
			st := c06New(kind, c.env.base)
			var alphabet []c06Op
			for i := range c.env.U {
				alphabet = append(alphabet, c06Op{"add", i})
			}
			if st.hasRemove {
				for i := range c.env.U {
					alphabet = append(alphabet, c06Op{"remove", i})
				}
			}
			alphabet = append(alphabet, c06Op{"merge1", 0}, c06Op{"merge2", 0})
			// shard on the first two operations
			type pre struct{ a, b int }
			var pres []pre
			for a := range alphabet {
				for b := range alphabet {
					pres = append(pres, pre{a, b})
				}
			}
			// depth-1 nodes
			for a := range alphabet {
				c06Node(r, c.env, c.name, kind, []c06Op{alphabet[a]})
			}
			rt.ForRange(len(pres), func(i int) {
				if r.Expired("C06 history search " + kind) {
					return
				}
				ops := []c06Op{alphabet[pres[i].a], alphabet[pres[i].b]}
				var rec func(ops []c06Op)
				rec = func(ops []c06Op) {
					c06Node(r, c.env, c.name, kind, ops)
					if len(ops) == c.depth {
						return
					}
					for _, o := range alphabet {
						rec(append(append([]c06Op{}, ops...), o))
					}
				}
				rec(ops)
			})
		}
	}
	c06Bulk(r)
	r.Finish("every operation sequence up to depth d over Add(u)/Remove(u) for u in U (12 atoms incl. two hash-colliding pairs, zero-arity, p/1 vs p/2) and Merge(S1)/Merge(S2), " +
		"on 12 store constructions; size dimension: 1100 (thorough: up to 4200) pairwise hash-distinct atoms in three layouts added one by one to every construction with the answer of every Add judged, all observers at sizes 1,2,64,999,1000,1001,1024,1025,n, re-Add, Merge in both directions, Remove of every other atom; all observers evaluated in every reached state; non-trivial = history contains a Remove or Merge or a re-Add; states = histories (no dedup)")
}

func c06Node(r *rt.Run, env *c06Env, envName, kind string, ops []c06Op) {
	r.Add("states", 1)
	r.Add("transitions", 1)
	r.Add("evaluations", 1)
	r.Add("traces_validated_against_impl", 1)
	nt := false
	seen := map[int]bool{}
	for _, o := range ops {
		if o.kind != "add" || seen[o.atom] {
			nt = true
		}
		seen[o.atom] = true
	}
	if nt {
		r.Add("distinct_nontrivial", 1)
	}
	var kindV, detail string
	pv, stk := rt.Try(func() { kindV, detail = c06Run(env, kind, ops) })
	var names []string
	for _, o := range ops {
		names = append(names, o.String(env.Utext))
	}
	var opsW []map[string]any
	for _, o := range ops {
		opsW = append(opsW, map[string]any{"kind": o.kind, "atom": o.atom})
	}
	w := map[string]any{"store": kind, "universe": envName, "ops": opsW, "history": strings.Join(names, "; ")}
	if pv != nil {
		r.Violate("panic", fmt.Sprintf("%v at %s", pv, rt.ShortStack(stk)), w)
		return
	}
	if len(ops) == 3 && nt && r.SampleN() < 6 {
		r.Sample(map[string]any{"store": kind, "history": strings.Join(names, "; ")})
	}
	r.Outcome(kindV)
	if kindV != "" {
		r.Violate(kindV, fmt.Sprintf("[%s] after %s: %s", kind, strings.Join(names, "; "), detail), w)
	}
	_ = sort.Strings
}
