package main

import "os"

type osFile = os.File

var stderrFile = os.Stderr

// repoDir is the repository under check: /repo for every registered command; VERIF_REPO lets a background
// exploration run against a snapshot.
func repoDir() string {
	if d := os.Getenv("VERIF_REPO"); d != "" {
		return d
	}
	return "/repo"
}
