package main

import "os"

type osFile = os.File

var stderrFile = os.Stderr
