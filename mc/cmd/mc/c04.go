package main

import (
	"errors"
	"fmt"
	"sort"
	"strings"
	"time"

	"codeberg.org/TauCeti/mangle-go/ast"
	"codeberg.org/TauCeti/mangle-go/engine"
	"codeberg.org/TauCeti/mangle-go/factstore"

	"verifmc/mg"
	"verifmc/oracle"
	"verifmc/rt"
)

func init() { register("C04", c04) }

const c04Decls = "Decl q(A).\nDecl r(A,B).\nDecl s(A).\nDecl t(A,B).\n"

var c04Heads = []string{"h(X)", "h(X,Y)", "h(X,1)", "h(Y,X)", "h(X,_)"}

var c04Lits = []string{
	"q(X)", "q(Y)", "r(X,Y)", "r(Y,X)", "r(X,_)", "r(X,X)",
	"!s(X)", "!s(Y)", "!s(_)", "!t(X,Y)", "!t(X,_)", "!t(Z,X)",
	"X = Y", "X = 1", "Y = X", "Y = fn:plus(X, 1)", "fn:plus(X, 1) = Y",
	"X != Y", "X != 1",
	"X < Y", "X < 2", "Y > X", ":le(X, Y)",
	"P = fn:pair(X, Y)", ":match_pair(P, X, Y)",
	":list:member(X, [1, 2])", ":list:member(Y, [X, 3])",
	"!q(X)",
}

// reduced literal set for k=4
var c04LitsSmall = []string{
	"q(X)", "q(Y)", "r(X,Y)", "r(X,_)", "!s(X)", "!s(Y)", "!s(_)", "!t(X,Y)", "!t(Z,X)",
	"X = Y", "Y = fn:plus(X, 1)", "X != Y", "X < Y", "P = fn:pair(X, Y)", ":match_pair(P, X, Y)", "X = 1",
}

// function applications inside atoms, wildcards in equalities, list patterns over the variable they test
var c04LitsFn = []string{
	"q(X)", "q(Y)", "r(X,Y)", "!s(X)",
	"q(fn:plus(X, 1))", "r(X, fn:plus(Y, 1))", "r(fn:plus(X, 1), Y)", "!s(fn:plus(X, 1))", "!t(X, fn:plus(Y, 1))",
	"_ = X", "X = _", "_ != X", "_ = fn:plus(X, 1)",
	":list:member(X, [X])", ":list:member(Y, [X, Y])", ":list:member(X, [1, Y])",
	"fn:plus(Y, 1) < 3", "X < fn:plus(Y, 1)", ":match_pair(fn:pair(X, Y), X, Z)", "Y = fn:plus(fn:plus(X, 1), Z)",
	// equalities and inequalities with a function application or constructor on both sides
	"fn:plus(X, 1) = fn:plus(Y, 1)", "fn:pair(X, 1) = fn:pair(Y, 1)", "[X] = [Y]", "fn:plus(Y, 1) = fn:plus(X, 1)", "fn:plus(X, 1) != fn:plus(Y, 1)",
	// negated built-ins (prefix form) over bound variables, unbound variables and function applications
	"!:lt(X, 2)", "!:le(Y, X)", "!:lt(fn:plus(X, 1), 3)", "!:list:member(X, [1, Y])",
}

// destructuring built-ins whose output positions repeat a variable, hold a bound variable, or name the scrutinee itself
var c04LitsMatch = []string{
	"q(X)", "r(X,Y)", "P = fn:pair(X, Y)", "P = fn:pair(X, X)", "L = [X, Y]", "L = [X]", "L = [[X], X]",
	":match_pair(P, X, X)", ":match_pair(P, Z, Z)", ":match_pair(P, Z, W)", ":match_pair(P, X, Z)", ":match_pair(P, Z, P)",
	":match_cons(L, X, X)", ":match_cons(L, Z, Z)", ":match_cons(L, Z, W)", ":match_cons(L, Z, L)", ":match_nil(L)",
	":list:member(Z, L)", ":list:member(X, L)",
}

// transform tails for the function family: let chains in and out of definition order
var c04TransformsFn = []string{"", " |> let Y = fn:plus(X, 1)", " |> let W = fn:plus(X, 1), let Y = fn:plus(X, W)", " |> let Y = fn:plus(X, W), let W = fn:plus(X, 1)",
	" |> do fn:group_by(X), let Y = fn:count(), let Z = fn:sum(X)", " |> do fn:group_by(X), let Y = fn:sum(W)",
	// ordinary functions among the statements of a do-transform, in and out of definition order
	" |> do fn:group_by(X), let Z = fn:count(), let Y = fn:plus(Z, 1)", " |> do fn:group_by(X), let Y = fn:plus(Z, 1), let Z = fn:count()", " |> do fn:group_by(X), let Y = fn:plus(Y, 1)"}

// focused set for 4-literal bodies in the quick tier
var c04LitsFour = []string{"q(X)", "q(Y)", "r(X,Y)", "!s(X)", "!s(Y)", "!t(X,Y)", "!t(Y,X)", "X != Y", "X = Y"}

// wildcards next to delayed negated atoms: every wildcard is a variable of its own
var c04LitsFourW = []string{"q(_)", "r(X,_)", "!s(X)", "_ = X", "X = _", "q(X)", "!t(X,Y)", "q(Y)"}

var c04Transforms = []string{"", " |> let Y = fn:plus(X, 1)", " |> do fn:group_by(X), let Y = fn:count()", " |> let Z = fn:plus(X, 1)"}

var c04EDBs = [][]string{
	{"q(1)", "q(2)", "r(1,2)", "r(2,1)", "r(1,1)", "s(1)", "t(1,2)", "t(2,2)"},
	{"q(1)", "r(1,1)", "r(2,2)", "s(2)", "t(2,1)"},
	{"q(1)", "q(2)", "r(1,2)"},
}

func c04(r *rt.Run) {
	r.Assumptions = []string{
		"reference: order-independent evaluability and meaning of the clause as written (verifmc/oracle); `_` in a negated atom means 'no such fact for any value'",
		"rejected-but-evaluable clauses are not violations (analysis may be conservative); they are counted",
		"all EDB values are numbers so every comparison/arithmetic in the alphabet is total",
	}
	if r.Replay != "" {
		_, w := rt.ReadReplay(r.Replay)
		c04Clause(r, fmt.Sprint(w["clause"]))
		r.Finish("replay")
	}
	r.SetBudget(240*time.Second, 3000*time.Second)
	var clauses []string
	outOfAlphabet := 0
	emit := func(lits []string) {
		body := strings.Join(lits, ", ")
		for _, h := range c04Heads {
			for _, t := range c04Transforms {
				// A transform that defines a variable which also occurs in the body has no documented
				// meaning (the body occurrence is a different binding); outside the alphabet.
				redefines := false
				for _, def := range transformDefinesAll(t) {
					if mentionsVar(body, def) {
						redefines = true
					}
				}
				if redefines {
					outOfAlphabet++
					continue
				}
				// Whether a wildcard contributes to the multiplicity of an aggregated solution is undocumented.
				if strings.Contains(t, "|> do") && strings.Contains(body, "_") {
					outOfAlphabet++
					continue
				}
				clauses = append(clauses, h+" :- "+body+t+".")
			}
		}
	}
	var rec func(pool []string, k int, cur []string, used []bool)
	rec = func(pool []string, k int, cur []string, used []bool) {
		if len(cur) > 0 {
			emit(cur)
		}
		if len(cur) == k {
			return
		}
		for i, l := range pool {
			if used[i] {
				continue
			}
			used[i] = true
			rec(pool, k, append(cur, l), used)
			used[i] = false
		}
	}
	rec(c04Lits, 3, nil, make([]bool, len(c04Lits)))
	{
		// four literals over a focused 9-literal set: two negated atoms whose binders come later, in every order
		n0 := len(clauses)
		rec(c04LitsFour, 4, nil, make([]bool, len(c04LitsFour)))
		rec(c04LitsFourW, 4, nil, make([]bool, len(c04LitsFourW)))
		kept := clauses[:n0]
		for _, c := range clauses[n0:] {
			body := c[strings.Index(c, ":-"):]
			if strings.Count(stripParens(body), ",") >= 3 {
				kept = append(kept, c)
			}
		}
		clauses = kept
	}
	{
		// the function family: bodies of <= 3 literals over c04LitsFn with its own transform tails
		saveT := c04Transforms
		c04Transforms = c04TransformsFn
		n0 := len(clauses)
		rec(c04LitsFn, 3, nil, make([]bool, len(c04LitsFn)))
		c04Transforms = saveT
		seen := map[string]bool{}
		for _, c := range clauses[:n0] {
			seen[c] = true
		}
		kept := clauses[:n0]
		for _, c := range clauses[n0:] {
			if !seen[c] {
				kept = append(kept, c)
			}
		}
		clauses = kept
	}
	{
		// the destructuring family: bodies of <= 3 literals over c04LitsMatch, heads over X / Z, no transform
		saveT, saveH := c04Transforms, c04Heads
		c04Transforms, c04Heads = []string{""}, []string{"h(X)", "h(Z)", "h(X,Z)", "h(Z,W)"}
		n0 := len(clauses)
		rec(c04LitsMatch, 3, nil, make([]bool, len(c04LitsMatch)))
		c04Transforms, c04Heads = saveT, saveH
		seen := map[string]bool{}
		for _, c := range clauses[:n0] {
			seen[c] = true
		}
		kept := clauses[:n0]
		for _, c := range clauses[n0:] {
			if !seen[c] {
				kept = append(kept, c)
			}
		}
		clauses = kept
	}
	if r.Thorough() {
		n0 := len(clauses)
		rec(c04LitsSmall, 4, nil, make([]bool, len(c04LitsSmall)))
		// drop the k<=3 duplicates of the small pool cheaply: keep only clauses with 4 literals
		kept := clauses[:n0]
		for _, c := range clauses[n0:] {
			body := c[strings.Index(c, ":-"):]
			if strings.Count(stripParens(body), ",") >= 3 {
				kept = append(kept, c)
			}
		}
		clauses = kept
	}
	c04Temporal(r)
	r.Extra["clauses_enumerated"] = len(clauses)
	r.Extra["skipped_outside_alphabet_(transform_redefines_body_variable,_wildcard_in_aggregated_body)"] = outOfAlphabet
	rt.ForRange(len(clauses), func(i int) {
		if r.Expired("C04 clause enumeration") {
			return
		}
		c04Clause(r, clauses[i])
	})
	r.Finish("every clause H :- L1..Lk (k<=3 over 28 literals, k<=3 over a 29-literal family with function applications inside atoms and on both sides of (in)equalities / wildcards in equalities / list patterns x 6 transform tails incl. let chains, k<=3 over a 19-literal destructuring family (:match_pair / :match_cons / :match_nil / :list:member with repeated, bound and self-referential output positions), k=4 over a focused 9-literal set and over an 8-literal set with wildcards in atoms and equalities; a temporal family (10 head annotation forms x every ordered body of <=2 literals over 16 annotated atoms/operators, evaluated against a temporal store: no panic, no 'variable has no value' error); thorough adds k=4 over 16) in every order x 5 heads x 4 transform tails, analysed alone with declared EDB predicates; accepted ones evaluated on 3 EDBs; " +
		"non-trivial = accepted clause whose reference result is non-empty on some EDB; distinct by construction")
}

// c04Temporal: temporal annotations in heads and bodies. Every head annotation form x every ordered body of <= 2
// literals over annotated atoms (both bounds / one bound / a point / the same variable twice / other variable names),
// operators with and without annotation, plain and negated atoms. The reference evaluator has no temporal fragment, so
// this family decides the first half of the property only: an accepted clause must evaluate without panic and without
// an error that says a variable (of the head annotation or elsewhere) has no value.
func c04Temporal(r *rt.Run) {
	decls := "Decl ta(X) temporal bound [/number].\nDecl q(A).\nDecl s(A).\n"
	heads := []string{"h(X)", "h(X)@[S, E]", "h(X)@[S, _]", "h(X)@[_, E]", "h(X)@[S]", "h(X)@[now]", "h(X)@[S, now]", "h(X, S)", "h(X, S, E)", "h(X)@[E, S]"}
	lits := []string{"ta(X)@[S, E]", "ta(X)@[S, _]", "ta(X)@[_, E]", "ta(X)@[S]", "ta(X)@[S, S]", "ta(X)@[S1, E1]", "ta(Y)@[S, E]", "ta(X)@[_, _]", "q(X)", "!s(X)",
		"<-[0s, 5s] ta(X)", "<-[0s, 5s] ta(X)@[S, E]", "[-[0s, 1s] ta(X)@[S, _]", "<+[0s, 5s] ta(X)@[_, E]", "S = E", "S < E"}
	var bodies []string
	for i, a := range lits {
		bodies = append(bodies, a)
		for j, b := range lits {
			if i != j {
				bodies = append(bodies, a+", "+b)
			}
		}
	}
	type job struct{ head, body string }
	var jobs []job
	for _, h := range heads {
		for _, b := range bodies {
			jobs = append(jobs, job{h, b})
		}
	}
	t0 := mg.EvalTime
	rt.ForRange(len(jobs), func(i int) {
		clause := jobs[i].head + " :- " + jobs[i].body + "."
		w := map[string]any{"clause": clause, "family": "temporal"}
		r.Add("states", 1)
		r.Add("transitions", 1)
		r.Add("temporal_clauses", 1)
		pp := prepare(decls + clause + "\n")
		if pp.panicV != nil {
			r.Violate("analysis-panic", fmt.Sprintf("%v at %s", pp.panicV, rt.ShortStack(pp.stack)), w)
			return
		}
		if pp.err != nil {
			r.Add("clauses_rejected", 1)
			return
		}
		r.Add("clauses_accepted", 1)
		r.Add("temporal_clauses_accepted", 1)
		var everr error
		pv, st := rt.Try(func() {
			ts := factstore.NewTemporalStore()
			iv := func(a, b int) ast.Interval {
				return ast.NewInterval(ast.NewTimestampBound(t0.Add(time.Duration(a)*time.Second)), ast.NewTimestampBound(t0.Add(time.Duration(b)*time.Second)))
			}
			ts.Add(ast.NewAtom("ta", ast.Number(1)), iv(-3, 2))
			ts.Add(ast.NewAtom("ta", ast.Number(1)), iv(-30, -20))
			ts.Add(ast.NewAtom("ta", ast.Number(2)), iv(-1, -1))
			ts.Add(ast.NewAtom("ta", ast.Number(3)), ast.NewInterval(ast.NegativeInfinity(), ast.NewTimestampBound(t0)))
			store := mg.NewStoreWithEDB("multiarray", evalGround([]string{"q(1)", "q(2)", "q(3)", "s(2)"}))
			everr = mg.Eval(pp.pi, store, engine.WithTemporalStore(ts))
		})
		r.Add("evaluations", 1)
		r.Add("traces_validated_against_impl", 1)
		if pv != nil {
			r.Violate("eval-panic", fmt.Sprintf("%v at %s", pv, rt.ShortStack(st)), w)
			return
		}
		if everr != nil {
			msg := everr.Error()
			if strings.Contains(msg, "resolve") || strings.Contains(msg, "not a value") || strings.Contains(msg, "unbound") || strings.Contains(msg, "not bound") || strings.Contains(msg, "no value") {
				r.Violate("eval-error-temporal", "accepted clause failed at evaluation because a variable has no value: "+msg, w)
				return
			}
			r.Add("temporal_clauses_with_data_dependent_evaluation_error", 1)
			r.Outcome("temporal-error: " + msg[:min(len(msg), 40)])
			return
		}
		r.Add("distinct_nontrivial", 1)
	})
}

// stripParens removes parenthesised/bracketed groups so that top-level commas can be counted.
func stripParens(s string) string {
	var sb strings.Builder
	depth := 0
	for _, ch := range s {
		switch ch {
		case '(', '[':
			depth++
		case ')', ']':
			depth--
		default:
			if depth == 0 {
				sb.WriteRune(ch)
			}
		}
	}
	out := sb.String()
	if i := strings.Index(out, "|>"); i >= 0 {
		out = out[:i]
	}
	return out
}

func c04Clause(r *rt.Run, clause string) {
	src := c04Decls + clause + "\n"
	w := map[string]any{"clause": clause}
	r.Add("states", 1)
	pp := prepare(src)
	r.Add("transitions", 1)
	if pp.panicV != nil {
		r.Violate("analysis-panic", fmt.Sprintf("%v at %s", pp.panicV, rt.ShortStack(pp.stack)), w)
		return
	}
	if pp.err != nil {
		if pp.clauses == nil {
			r.Add("clauses_not_parsing", 1)
		} else {
			r.Add("clauses_rejected", 1)
			// count conservative rejections
			edb, _ := mg.ParseAtoms(c04EDBs[0])
			if _, rerr := oracle.Eval(pp.clauses, edb, oracle.Config{MaxRounds: 50}); rerr == nil {
				r.Add("rejected_but_evaluable_by_reference", 1)
			}
		}
		r.Outcome("rejected")
		return
	}
	r.Add("clauses_accepted", 1)
	nontrivial := false
	for ei, edbText := range c04EDBs {
		edb, err := mg.ParseAtoms(edbText)
		if err != nil {
			panic(err)
		}
		w := map[string]any{"clause": clause, "edb": edbText}
		ref, rerr := oracle.Eval(pp.clauses, edb, oracle.Config{MaxRounds: 50, MaxFacts: 5000})
		r.Add("evaluations", 1)
		r.Add("transitions", 1)
		if rerr != nil && (errors.Is(rerr, oracle.ErrUnsupported) || errors.Is(rerr, oracle.ErrEvalError)) {
			r.Add("cases_outside_reference_fragment", 1)
			if errors.Is(rerr, oracle.ErrUnsupported) {
				// the reference has no meaning for the clause (e.g. an ordinary function among the statements of a
				// do-transform): the first half of the property is still decided — an accepted clause evaluates
				// without panic and without an error that says a variable has no value
				var everr error
				pv, st := rt.Try(func() { everr = mg.Eval(pp.pi, mg.NewStoreWithEDB("multiarray", edb)) })
				r.Add("traces_validated_against_impl", 1)
				if pv != nil {
					r.Violate("panic", fmt.Sprintf("%v at %s", pv, rt.ShortStack(st)), w)
				} else if everr != nil && (strings.Contains(everr.Error(), "not a value") || strings.Contains(everr.Error(), "no value") || strings.Contains(everr.Error(), "not bound")) {
					r.Violate("eval-error-variable-without-value", "accepted clause failed at evaluation: "+everr.Error(), w)
				}
			}
			continue
		}
		if errors.Is(rerr, oracle.ErrUnsafe) {
			if ei == 0 {
				if v := fnArgUnbound(pp); v != "" {
					r.Violate("unsafe-accepted-fn-in-atom-arg-unbound", "analysis accepted a clause in which "+v+" occurs inside a function application in an argument of a stored-predicate atom before it has a value", w)
					continue
				}
				r.Violate("unsafe-accepted", "analysis accepted a clause in which some variable can never receive a value where it is needed", w)
			}
			continue
		}
		if rerr != nil {
			// unstratifiable (h depends on nothing of itself here) or diverged: not expected
			panic(fmt.Sprintf("oracle: %v on %s", rerr, clause))
		}
		var got, nonGround []string
		var everr error
		pv, st := rt.Try(func() {
			store := mg.NewStoreWithEDB("multiarray", edb)
			everr = mg.Eval(pp.pi, store)
			got, _, nonGround = mg.Canon(store)
		})
		r.Add("traces_validated_against_impl", 1)
		if pv != nil {
			r.Violate("eval-panic", fmt.Sprintf("%v at %s", pv, rt.ShortStack(st)), w)
			continue
		}
		if everr != nil {
			if v := fnArgUnbound(pp); v != "" && strings.Contains(everr.Error(), "not a value: "+v+" ") {
				r.Violate("eval-error-fn-in-atom-arg-unbound", "accepted clause failed at evaluation: "+everr.Error(), w)
				continue
			}
			r.Violate("eval-error", "accepted clause failed at evaluation: "+everr.Error(), w)
			continue
		}
		if len(nonGround) > 0 {
			r.Violate("non-ground-fact", mg.Short(nonGround), w)
		}
		want := ref.DB.Canon()
		if len(want) > len(edb) {
			nontrivial = true
		}
		r.Outcome(fmt.Sprint(len(want) - len(edb)))
		missing, extra := mg.Diff(want, got)
		if len(extra) > 0 && len(missing) == 0 {
			r.Violate("literal-ignored", "result has facts the clause as written does not derive (a body literal was ignored or weakened): "+mg.Short(extra), w)
		} else if len(missing) > 0 {
			r.Violate("result-differs", fmt.Sprintf("missing %s; unexpected %s", mg.Short(missing), mg.Short(extra)), w)
		}
	}
	if nontrivial {
		r.Add("distinct_nontrivial", 1)
		if r.SampleN() < 8 {
			r.Sample(map[string]any{"clause": clause, "accepted": true})
		}
	}
}

// transformDefinesAll lists every variable a transform tail defines with let.
func transformDefinesAll(t string) []string {
	var out []string
	rest := t
	for {
		i := strings.Index(rest, "let ")
		if i < 0 {
			return out
		}
		rest = rest[i+4:]
		if j := strings.Index(rest, " "); j > 0 {
			out = append(out, rest[:j])
		}
	}
}

// fnArgUnbound looks at the clause in the premise order analysis chose and returns the name of a
// variable that occurs inside a function application among the arguments of a non-built-in atom
// (plain or negated) at a point where no earlier premise can have given it a value; "" if there is none.
// It is the attribution test of known finding F41 (computed from the witness, never from the message alone).
func fnArgUnbound(pp parsedProg) string {
	if pp.pi == nil || len(pp.pi.Rules) == 0 {
		return ""
	}
	bound := map[string]bool{}
	direct := func(args []ast.BaseTerm) {
		for _, a := range args {
			if v, ok := a.(ast.Variable); ok && v.Symbol != "_" {
				bound[v.Symbol] = true
			}
		}
	}
	varsOf := func(t ast.BaseTerm) []string {
		m := map[ast.Variable]bool{}
		ast.AddVars(t, m)
		var out []string
		for v := range m {
			out = append(out, v.Symbol)
		}
		sort.Strings(out)
		return out
	}
	allBound := func(t ast.BaseTerm) bool {
		for _, v := range varsOf(t) {
			if !bound[v] {
				return false
			}
		}
		return true
	}
	for _, p := range pp.pi.Rules[0].Premises {
		var atom *ast.Atom
		neg := false
		switch t := p.(type) {
		case ast.Atom:
			atom = &t
		case ast.NegAtom:
			atom, neg = &t.Atom, true
		case ast.Eq:
			if v, ok := t.Left.(ast.Variable); ok && allBound(t.Right) {
				bound[v.Symbol] = true
			}
			if v, ok := t.Right.(ast.Variable); ok && allBound(t.Left) {
				bound[v.Symbol] = true
			}
			continue
		default:
			continue
		}
		if atom.Predicate.IsBuiltin() {
			direct(atom.Args) // outputs of built-ins; inputs were bound already
			continue
		}
		for _, a := range atom.Args {
			if _, isFn := a.(ast.ApplyFn); isFn {
				for _, v := range varsOf(a) {
					if !bound[v] {
						return v
					}
				}
			}
		}
		if !neg {
			direct(atom.Args)
		}
	}
	return ""
}

func transformDefines(t string) string {
	i := strings.Index(t, "let ")
	if i < 0 {
		return ""
	}
	rest := t[i+4:]
	if j := strings.Index(rest, " "); j > 0 {
		return rest[:j]
	}
	return ""
}

func mentionsVar(body, v string) bool {
	isIdent := func(b byte) bool {
		return b == '_' || (b >= 'a' && b <= 'z') || (b >= 'A' && b <= 'Z') || (b >= '0' && b <= '9') || b == ':'
	}
	for i := 0; i+len(v) <= len(body); i++ {
		if body[i:i+len(v)] == v && (i == 0 || !isIdent(body[i-1])) && (i+len(v) == len(body) || !isIdent(body[i+len(v)])) {
			return true
		}
	}
	return false
}
