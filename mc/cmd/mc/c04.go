package main

import (
	"errors"
	"fmt"
	"strings"
	"time"

	"verifmc/mg"
	"verifmc/oracle"
	"verifmc/rt"
)

func init() { register("C04", c04) }

const c04Decls = "Decl q(A).\nDecl r(A,B).\nDecl s(A).\nDecl t(A,B).\n"

var c04Heads = []string{"h(X)", "h(X,Y)", "h(X,1)", "h(Y,X)", "h(X,_)"}

var c04Lits = []string{
	"q(X)", "q(Y)", "r(X,Y)", "r(Y,X)", "r(X,_)", "r(X,X)",
	"!s(X)", "!s(Y)", "!s(_)", "!t(X,Y)", "!t(X,_)", "!t(Z,X)",
	"X = Y", "X = 1", "Y = X", "Y = fn:plus(X, 1)", "fn:plus(X, 1) = Y",
	"X != Y", "X != 1",
	"X < Y", "X < 2", "Y > X", ":le(X, Y)",
	"P = fn:pair(X, Y)", ":match_pair(P, X, Y)",
	":list:member(X, [1, 2])", ":list:member(Y, [X, 3])",
	"!q(X)",
}

// reduced literal set for k=4
var c04LitsSmall = []string{
	"q(X)", "q(Y)", "r(X,Y)", "r(X,_)", "!s(X)", "!s(Y)", "!s(_)", "!t(X,Y)", "!t(Z,X)",
	"X = Y", "Y = fn:plus(X, 1)", "X != Y", "X < Y", "P = fn:pair(X, Y)", ":match_pair(P, X, Y)", "X = 1",
}

// focused set for 4-literal bodies in the quick tier
var c04LitsFour = []string{"q(X)", "q(Y)", "r(X,Y)", "!s(X)", "!s(Y)", "!t(X,Y)", "!t(Y,X)", "X != Y", "X = Y"}

var c04Transforms = []string{"", " |> let Y = fn:plus(X, 1)", " |> do fn:group_by(X), let Y = fn:count()", " |> let Z = fn:plus(X, 1)"}

var c04EDBs = [][]string{
	{"q(1)", "q(2)", "r(1,2)", "r(2,1)", "r(1,1)", "s(1)", "t(1,2)", "t(2,2)"},
	{"q(1)", "r(1,1)", "r(2,2)", "s(2)", "t(2,1)"},
	{"q(1)", "q(2)", "r(1,2)"},
}

func c04(r *rt.Run) {
	r.Assumptions = []string{
		"reference: order-independent evaluability and meaning of the clause as written (verifmc/oracle); `_` in a negated atom means 'no such fact for any value'",
		"rejected-but-evaluable clauses are not violations (analysis may be conservative); they are counted",
		"all EDB values are numbers so every comparison/arithmetic in the alphabet is total",
	}
	if r.Replay != "" {
		_, w := rt.ReadReplay(r.Replay)
		c04Clause(r, fmt.Sprint(w["clause"]))
		r.Finish("replay")
	}
	r.SetBudget(240*time.Second, 3000*time.Second)
	var clauses []string
	outOfAlphabet := 0
	emit := func(lits []string) {
		body := strings.Join(lits, ", ")
		for _, h := range c04Heads {
			for _, t := range c04Transforms {
				// A transform that defines a variable which also occurs in the body has no documented
				// meaning (the body occurrence is a different binding); outside the alphabet.
				if def := transformDefines(t); def != "" && mentionsVar(body, def) {
					outOfAlphabet++
					continue
				}
				// Whether a wildcard contributes to the multiplicity of an aggregated solution is undocumented.
				if strings.Contains(t, "|> do") && strings.Contains(body, "_") {
					outOfAlphabet++
					continue
				}
				clauses = append(clauses, h+" :- "+body+t+".")
			}
		}
	}
	var rec func(pool []string, k int, cur []string, used []bool)
	rec = func(pool []string, k int, cur []string, used []bool) {
		if len(cur) > 0 {
			emit(cur)
		}
		if len(cur) == k {
			return
		}
		for i, l := range pool {
			if used[i] {
				continue
			}
			used[i] = true
			rec(pool, k, append(cur, l), used)
			used[i] = false
		}
	}
	rec(c04Lits, 3, nil, make([]bool, len(c04Lits)))
	{
		// four literals over a focused 9-literal set: two negated atoms whose binders come later, in every order
		n0 := len(clauses)
		rec(c04LitsFour, 4, nil, make([]bool, len(c04LitsFour)))
		kept := clauses[:n0]
		for _, c := range clauses[n0:] {
			body := c[strings.Index(c, ":-"):]
			if strings.Count(stripParens(body), ",") >= 3 {
				kept = append(kept, c)
			}
		}
		clauses = kept
	}
	if r.Thorough() {
		n0 := len(clauses)
		rec(c04LitsSmall, 4, nil, make([]bool, len(c04LitsSmall)))
		// drop the k<=3 duplicates of the small pool cheaply: keep only clauses with 4 literals
		kept := clauses[:n0]
		for _, c := range clauses[n0:] {
			body := c[strings.Index(c, ":-"):]
			if strings.Count(stripParens(body), ",") >= 3 {
				kept = append(kept, c)
			}
		}
		clauses = kept
	}
	r.Extra["clauses_enumerated"] = len(clauses)
	r.Extra["skipped_outside_alphabet_(transform_redefines_body_variable,_wildcard_in_aggregated_body)"] = outOfAlphabet
	rt.ForRange(len(clauses), func(i int) {
		if r.Expired("C04 clause enumeration") {
			return
		}
		c04Clause(r, clauses[i])
	})
	r.Finish("every clause H :- L1..Lk (k<=3 over 28 literals, k=4 over a focused 9-literal set; thorough adds k=4 over 16) in every order x 5 heads x 4 transform tails, analysed alone with declared EDB predicates; accepted ones evaluated on 3 EDBs; " +
		"non-trivial = accepted clause whose reference result is non-empty on some EDB; distinct by construction")
}

// stripParens removes parenthesised/bracketed groups so that top-level commas can be counted.
func stripParens(s string) string {
	var sb strings.Builder
	depth := 0
	for _, ch := range s {
		switch ch {
		case '(', '[':
			depth++
		case ')', ']':
			depth--
		default:
			if depth == 0 {
				sb.WriteRune(ch)
			}
		}
	}
	out := sb.String()
	if i := strings.Index(out, "|>"); i >= 0 {
		out = out[:i]
	}
	return out
}

func c04Clause(r *rt.Run, clause string) {
	src := c04Decls + clause + "\n"
	w := map[string]any{"clause": clause}
	r.Add("states", 1)
	pp := prepare(src)
	r.Add("transitions", 1)
	if pp.panicV != nil {
		r.Violate("analysis-panic", fmt.Sprintf("%v at %s", pp.panicV, rt.ShortStack(pp.stack)), w)
		return
	}
	if pp.err != nil {
		if pp.clauses == nil {
			r.Add("clauses_not_parsing", 1)
		} else {
			r.Add("clauses_rejected", 1)
			// count conservative rejections
			edb, _ := mg.ParseAtoms(c04EDBs[0])
			if _, rerr := oracle.Eval(pp.clauses, edb, oracle.Config{MaxRounds: 50}); rerr == nil {
				r.Add("rejected_but_evaluable_by_reference", 1)
			}
		}
		r.Outcome("rejected")
		return
	}
	r.Add("clauses_accepted", 1)
	nontrivial := false
	for ei, edbText := range c04EDBs {
		edb, err := mg.ParseAtoms(edbText)
		if err != nil {
			panic(err)
		}
		w := map[string]any{"clause": clause, "edb": edbText}
		ref, rerr := oracle.Eval(pp.clauses, edb, oracle.Config{MaxRounds: 50, MaxFacts: 5000})
		r.Add("evaluations", 1)
		r.Add("transitions", 1)
		if rerr != nil && (errors.Is(rerr, oracle.ErrUnsupported) || errors.Is(rerr, oracle.ErrEvalError)) {
			r.Add("cases_outside_reference_fragment", 1)
			continue
		}
		if errors.Is(rerr, oracle.ErrUnsafe) {
			if ei == 0 {
				r.Violate("unsafe-accepted", "analysis accepted a clause in which some variable can never receive a value where it is needed", w)
			}
			continue
		}
		if rerr != nil {
			// unstratifiable (h depends on nothing of itself here) or diverged: not expected
			panic(fmt.Sprintf("oracle: %v on %s", rerr, clause))
		}
		var got, nonGround []string
		var everr error
		pv, st := rt.Try(func() {
			store := mg.NewStoreWithEDB("multiarray", edb)
			everr = mg.Eval(pp.pi, store)
			got, _, nonGround = mg.Canon(store)
		})
		r.Add("traces_validated_against_impl", 1)
		if pv != nil {
			r.Violate("eval-panic", fmt.Sprintf("%v at %s", pv, rt.ShortStack(st)), w)
			continue
		}
		if everr != nil {
			r.Violate("eval-error", "accepted clause failed at evaluation: "+everr.Error(), w)
			continue
		}
		if len(nonGround) > 0 {
			r.Violate("non-ground-fact", mg.Short(nonGround), w)
		}
		want := ref.DB.Canon()
		if len(want) > len(edb) {
			nontrivial = true
		}
		r.Outcome(fmt.Sprint(len(want) - len(edb)))
		missing, extra := mg.Diff(want, got)
		if len(extra) > 0 && len(missing) == 0 {
			r.Violate("literal-ignored", "result has facts the clause as written does not derive (a body literal was ignored or weakened): "+mg.Short(extra), w)
		} else if len(missing) > 0 {
			r.Violate("result-differs", fmt.Sprintf("missing %s; unexpected %s", mg.Short(missing), mg.Short(extra)), w)
		}
	}
	if nontrivial {
		r.Add("distinct_nontrivial", 1)
		if r.SampleN() < 8 {
			r.Sample(map[string]any{"clause": clause, "accepted": true})
		}
	}
}

func transformDefines(t string) string {
	i := strings.Index(t, "let ")
	if i < 0 {
		return ""
	}
	rest := t[i+4:]
	if j := strings.Index(rest, " "); j > 0 {
		return rest[:j]
	}
	return ""
}

func mentionsVar(body, v string) bool {
	isIdent := func(b byte) bool {
		return b == '_' || (b >= 'a' && b <= 'z') || (b >= 'A' && b <= 'Z') || (b >= '0' && b <= '9') || b == ':'
	}
	for i := 0; i+len(v) <= len(body); i++ {
		if body[i:i+len(v)] == v && (i == 0 || !isIdent(body[i-1])) && (i+len(v) == len(body) || !isIdent(body[i+len(v)])) {
			return true
		}
	}
	return false
}
