package main

import (
	"errors"
	"fmt"
	"sort"
	"strings"
	"time"

	"codeberg.org/TauCeti/mangle-go/ast"

	"verifmc/gen"
	"verifmc/mg"
	"verifmc/oracle"
	"verifmc/rt"
)

func init() { register("C02", c02) }

// aggKey is the canonical key of an atom where list arguments are read as multisets.
func aggKey(a ast.Atom) string {
	var sb strings.Builder
	sb.WriteString(oracle.PredKey(a.Predicate) + "(")
	for _, t := range a.Args {
		c, ok := t.(ast.Constant)
		if !ok {
			sb.WriteString("?nonground,")
			continue
		}
		if c.Type == ast.ListShape {
			sb.WriteString(oracle.SortedListKey(c))
		} else {
			sb.WriteString(oracle.Key(c))
		}
		sb.WriteString(",")
	}
	sb.WriteString(")")
	return sb.String()
}

func aggCanon(atoms []ast.Atom) []string {
	seen := map[string]bool{}
	var out []string
	for _, a := range atoms {
		if strings.HasSuffix(a.Predicate.Symbol, "__tmp") {
			continue
		}
		k := aggKey(a)
		if !seen[k] {
			seen[k] = true
			out = append(out, k)
		}
	}
	sort.Strings(out)
	return out
}

type aggProg struct {
	src   string
	rules []string
}

func c02Programs(thorough bool) ([]aggProg, [][]string, [][]string) {
	full := []string{"fn:count()", "fn:sum(V)", "fn:min(V)", "fn:max(V)", "fn:avg(V)", "fn:collect_distinct(V)", "fn:collect(V)"}
	small := []string{"fn:count()", "fn:sum(V)", "fn:collect_distinct(V)"}
	mk := func(rs ...gen.AggRule) aggProg {
		src := gen.AggDecls
		usesT := false
		var texts []string
		for _, r := range rs {
			usesT = usesT || r.UsesT
			texts = append(texts, r.Text)
		}
		if usesT {
			src += gen.AggTC
		}
		src += strings.Join(texts, "\n") + "\n"
		return aggProg{src, texts}
	}
	var singles, pairs []aggProg
	for _, r := range gen.AggRules(full) {
		singles = append(singles, mk(r))
	}
	pr := gen.AggRules(small)
	if thorough {
		pr = gen.AggRules([]string{"fn:count()", "fn:sum(V)", "fn:collect_distinct(V)", "fn:max(V)"})
	}
	for i := 0; i < len(pr); i++ {
		for j := i + 1; j < len(pr); j++ {
			if !thorough && pr[i].Head != pr[j].Head {
				continue // different heads are independent rules; quick keeps the colliding case
			}
			pairs = append(pairs, mk(pr[i], pr[j]))
		}
	}
	allQ := [][]int{{}, {1}, {2}, {3}, {1, 2}, {1, 3}, {2, 3}, {1, 2, 3}}
	someQ := [][]int{{}, {1}, {1, 2}, {2, 3}}
	var edbSingles, edbPairs [][]string
	if thorough {
		edbSingles = gen.AggEDBs(5, allQ)
		edbPairs = gen.AggEDBs(4, someQ)
	} else {
		edbSingles = gen.AggEDBs(4, allQ)
		edbPairs = gen.AggEDBs(3, [][]int{{}, {1, 2}, {2, 3}})
	}
	progs := append(singles, pairs...)
	_ = progs
	// encode which EDB family applies by position: singles first
	return append(singles, pairs...), edbSingles, edbPairs
}

func c02(r *rt.Run) {
	r.Assumptions = []string{
		"reference: per rule, the set of distinct assignments to the body's named variables over the completed lower strata, grouped and folded (verifmc/oracle)",
		"collected lists compared as multisets; with wildcards in an aggregated body only multiplicity-independent observations are compared (which groups exist; min, max, distinct-collect over named variables): how often a solution counts is undocumented there",
	}
	if r.Replay != "" {
		_, w := rt.ReadReplay(r.Replay)
		if fmt.Sprint(w["family"]) == "group-key-values" {
			c02KeyCase(r, prepare(c02KeySrc), c02KeyUniverse(), int(w["k1"].(float64)), int(w["k2"].(float64)), fmt.Sprint(w["store"]))
			r.Finish("replay")
		}
		c02Case(r, fmt.Sprint(w["source"]), toStrings(w["edb"]), fmt.Sprint(w["store"]))
		r.Finish("replay")
	}
	r.SetBudget(240*time.Second, 3000*time.Second)
	progs, edbS, edbP := c02Programs(r.Thorough())
	nSingles := 0
	for _, p := range progs {
		if len(p.rules) == 1 {
			nSingles++
		}
	}
	r.Extra["programs_enumerated"] = len(progs)
	r.Extra["edbs_single_rule"] = len(edbS)
	r.Extra["edbs_two_rules"] = len(edbP)
	type job struct {
		p   aggProg
		edb []string
	}
	// shard by program
	rt.ForRange(len(progs), func(i int) {
		if r.Expired("C02 enumeration") {
			return
		}
		p := progs[i]
		edbs := edbP
		if len(p.rules) == 1 {
			edbs = edbS
		}
		pp := prepare(p.src)
		r.Add("programs", 1)
		if pp.panicV != nil {
			r.Violate("analysis-panic", fmt.Sprint(pp.panicV), map[string]any{"source": p.src})
			return
		}
		if pp.err != nil {
			r.Add("programs_rejected_by_analysis", 1)
			return
		}
		kinds := []string{"multiarray"}
		if r.Thorough() || i%5 == 0 {
			kinds = append(kinds, "simple")
		}
		for _, e := range edbs {
			for _, k := range kinds {
				c02Eval(r, pp, e, k)
			}
		}
	})
	c02KeyFamily(r)
	c02WildFamily(r)
	r.Finish("pool A: every aggregating rule (10 bodies x reducers count,sum,min,max,avg,collect_distinct,collect x key {X},{Y},{}) alone, and every pair of rules over a reduced reducer set, " +
		"x every p subset of {1,2,3}^2 up to a size bound x q subsets; group-key values: every ordered pair of a 44-constant universe of mutually confusable constants as keys of 4 aggregating rules; wildcard bodies: 14 rules with one to three wildcards over s/3 x every non-empty subset of {1,2}^3 x 3 side relations; non-trivial = some group has >=2 solutions; distinct by construction")
}

func c02Case(r *rt.Run, src string, edbText []string, kind string) {
	pp := prepare(src)
	if pp.err != nil || pp.panicV != nil {
		fmt.Printf("replay: analysis err=%v panic=%v\n", pp.err, pp.panicV)
		return
	}
	c02Eval(r, pp, edbText, kind)
}

func c02Eval(r *rt.Run, pp parsedProg, edbText []string, kind string) {
	edb, err := mg.ParseAtoms(edbText)
	if err != nil {
		panic(err)
	}
	ref, rerr := oracle.Eval(pp.clauses, edb, oracle.Config{MaxRounds: 100, MaxFacts: 20000})
	if rerr != nil {
		if errors.Is(rerr, oracle.ErrUnsupported) {
			r.Add("cases_outside_reference_fragment", 1)
			return
		}
		panic(fmt.Sprintf("oracle: %v on %s", rerr, pp.src))
	}
	want := aggCanon(ref.DB.Atoms())
	w := map[string]any{"source": pp.src, "edb": edbText, "store": kind}
	var got []string
	var everr error
	pv, st := rt.Try(func() {
		store := mg.NewStoreWithEDB(kind, edb)
		everr = mg.Eval(pp.pi, store)
		got = aggCanon(mg.Atoms(store))
	})
	r.Add("states", 1)
	r.Add("transitions", 1)
	r.Add("evaluations", 1)
	r.Add("traces_validated_against_impl", 1)
	// non-trivial: more body solutions than head facts (some group folded >= 2 rows)
	nt := false
	for _, c := range pp.clauses {
		if c.Transform != nil && !c.Transform.IsLetTransform() {
			sols, _ := oracle.SolveBody(c.Premises, ref.DB)
			if len(sols) > len(ref.DB[oracle.PredKey(c.Head.Predicate)]) {
				nt = true
			}
		}
	}
	if nt {
		r.Add("distinct_nontrivial", 1)
		if r.SampleN() < 6 {
			r.Sample(map[string]any{"source": pp.src, "edb": edbText, "expected_heads": want})
		}
	}
	r.Outcome(strings.Join(want, "|"))
	if pv != nil {
		r.Violate("eval-panic", fmt.Sprintf("%v at %s", pv, rt.ShortStack(st)), w)
		return
	}
	if everr != nil {
		r.Violate("eval-error", everr.Error(), w)
		return
	}
	missing, extra := mg.Diff(want, got)
	if len(missing)+len(extra) == 0 {
		return
	}
	kindV := "aggregate-differs"
	if strings.Contains(pp.src, "p(X,X)") && len(pp.clauses) <= 1 {
		kindV = "aggregate-differs-repeated-variable-single-atom"
	}
	r.Violate(kindV, fmt.Sprintf("head facts differ from per-rule reduction: missing %s; unexpected %s", mg.Short(missing), mg.Short(extra)), w)
}
