package main

import (
	"fmt"

	"codeberg.org/TauCeti/mangle-go/ast"
	"codeberg.org/TauCeti/mangle-go/parse"
	"codeberg.org/TauCeti/mangle-go/symbols"

	"verifmc/rt"
)

// Name types against name types through equalities between typed variables: the columns of e range over name-prefix
// types, singletons and unions whose members lie below, beside and above each other, the head column over the same
// types, and the rules make two differently typed variables equal (directly, through a third variable, through a join).
// The type of the head variable is then a meet of the two column types; it must cover every value that survives.
var c11NameTypes = []string{
	"/a", "/a/b", "/b", "/name", "/any", "fn:Singleton(/a/x)",
	"fn:Union(/a/b, /b)", "fn:Union(/a/b, fn:Singleton(/a/x), /b)", "fn:Union(fn:Singleton(/a/x), /a/b)", "fn:Union(/a, /b)", "fn:Union(/a/b, /ab)",
	"fn:Union(/b, /a/b, fn:Singleton(/a/x))", "/a/c", "fn:Union(/a/b, /a/c, /b)", "fn:Union(/b, /a/c, /a/b)",
}

var c11NameRules = []string{
	"p(X,Y) :- e(X,Y), X = Y.",
	"p(Y,X) :- e(X,Y), X = Y.",
	"p(X,Y) :- e(X,Y), Y = X.",
	"p(Y,X) :- e(X,Y), Y = X.",
	"p(X,Y) :- e(X,_), e(_,Y), X = Y.",
	"p(Y,X) :- e(X,_), e(_,Y), Y = X.",
	"p(X,X) :- e(X,_), e(_,X).",
	"p(Z,Z) :- e(X,Y), Z = X, Z = Y.",
	"p(Z,Z) :- e(X,Y), Z = Y, Z = X.",
	"p(X,Y) :- e(X,Y), :match_prefix(X, /a), X = Y.",
	"p(Y,Y) :- e(X,Y), !:match_prefix(Y, /a/b), X = Y.",
}

func c11NameFamily(r *rt.Run) {
	vals := []ast.Constant{name2("/a/x"), name2("/a/b/y"), name2("/a/c/x"), name2("/ab/z"), name2("/b/x"), name2("/c")}
	members := map[string][]ast.Constant{}
	for _, t := range c11NameTypes {
		bt, err := parse.BaseTerm(t)
		if err != nil {
			panic(err)
		}
		hd, err := symbols.NewSetHandle(bt)
		if err != nil {
			panic(fmt.Sprintf("%s: %v", t, err))
		}
		for _, v := range vals {
			if hd.HasType(v) {
				members[t] = append(members[t], v)
			}
		}
	}
	type job struct{ t1, t2 string }
	var jobs []job
	for _, a := range c11NameTypes {
		for _, b := range c11NameTypes {
			jobs = append(jobs, job{a, b})
		}
	}
	r.Extra["name_family_declaration_pairs"] = len(jobs)
	rt.ForRange(len(jobs), func(ji int) {
		t1, t2 := jobs[ji].t1, jobs[ji].t2
		// all facts e(u, v) with u in t1, v in t2 in one store: equal pairs survive the equalities
		var facts string
		for _, u := range members[t1] {
			for _, v := range members[t2] {
				facts += fmt.Sprintf("e(%s, %s).\n", u.String(), v.String())
			}
		}
		for _, s1 := range c11NameTypes {
			for _, s2 := range []string{s1, "/any"} {
				for _, rule := range c11NameRules {
					decl := fmt.Sprintf("Decl e(A, B) bound [%s, %s].\nDecl p(A, B) bound [%s, %s].\n", t1, t2, s1, s2)
					if !c11Accepts(decl + rule + "\n") {
						r.Add("programs_rejected", 1)
						r.Add("states", 1)
						continue
					}
					c11Program(r, decl+facts+rule+"\n", nil)
				}
			}
		}
	})
}
