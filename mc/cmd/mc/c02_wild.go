package main

import (
	"fmt"

	"verifmc/rt"
)

// Wildcards in an aggregated body. How often a solution counts when the body has wildcards is not
// defined by the property (one row per stored fact on the single-atom path, one per assignment to the
// named variables otherwise), so this family uses only what does not depend on multiplicity: which
// groups exist, and min / max / distinct-collect over named variables. Facts over {1,2}^3, every subset.
var c02WildRules = []string{
	"w(X,C) :- s(X,_,_) |> do fn:group_by(X), let C = fn:max(X).",
	"w(X,C) :- s(_,X,_) |> do fn:group_by(X), let C = fn:min(X).",
	"w(X,C) :- s(_,_,X) |> do fn:group_by(X), let C = fn:collect_distinct(X).",
	"g(C) :- s(_,X,_) |> do fn:group_by(), let C = fn:collect_distinct(X).",
	"g(C) :- s(X,_,_) |> do fn:group_by(), let C = fn:max(X).",
	"w(X,C) :- s(X,Y,_) |> do fn:group_by(X), let C = fn:max(Y).",
	"w(X,C) :- s(X,_,Y) |> do fn:group_by(X), let C = fn:collect_distinct(Y).",
	"w(X,C) :- s(X,_,_), q(X) |> do fn:group_by(X), let C = fn:max(X).",
	"w(X,C) :- q(X), s(_,_,X) |> do fn:group_by(X), let C = fn:min(X).",
	"w(X,C) :- s(X,_,_), s(_,_,X) |> do fn:group_by(X), let C = fn:max(X).",
	"g(C) :- p(_,_), q(X) |> do fn:group_by(), let C = fn:max(X).",
	"w(X,C) :- p(X,_), s(_,X,_) |> do fn:group_by(X), let C = fn:max(X).",
	"w(X,C) :- s(X,X,_) |> do fn:group_by(X), let C = fn:max(X).",
	"w(X,C) :- s(_,X,X) |> do fn:group_by(X), let C = fn:max(X).",
}

func c02WildFamily(r *rt.Run) {
	var triples []string
	for a := 1; a <= 2; a++ {
		for b := 1; b <= 2; b++ {
			for c := 1; c <= 2; c++ {
				triples = append(triples, fmt.Sprintf("s(%d,%d,%d)", a, b, c))
			}
		}
	}
	extras := [][]string{{}, {"q(1)", "p(1,2)"}, {"q(2)", "q(1)", "p(2,2)", "p(1,2)"}}
	r.Extra["wildcard_rules"] = len(c02WildRules)
	rt.ForRange(len(c02WildRules), func(i int) {
		src := "Decl s(A,B,C).\nDecl p(A,B).\nDecl q(A).\n" + c02WildRules[i] + "\n"
		pp := prepare(src)
		if pp.err != nil || pp.panicV != nil {
			panic(fmt.Sprintf("C02 wildcard family program rejected: %v %v\n%s", pp.err, pp.panicV, src))
		}
		for m := 1; m < 1<<len(triples); m++ {
			var e []string
			for t := range triples {
				if m&(1<<t) != 0 {
					e = append(e, triples[t])
				}
			}
			for _, x := range extras {
				c02Eval(r, pp, append(append([]string{}, e...), x...), "multiarray")
				if m%7 == 0 {
					c02Eval(r, pp, append(append([]string{}, e...), x...), "simple")
				}
			}
		}
	})
}
