package main

import (
	"bytes"
	"fmt"
	"regexp"
	"sort"
	"strings"
	"time"

	"codeberg.org/TauCeti/mangle-go/ast"
	"codeberg.org/TauCeti/mangle-go/engine"
	"codeberg.org/TauCeti/mangle-go/factstore"

	"verifmc/gen"
	"verifmc/mg"
	"verifmc/oracle"
	"verifmc/rt"
)

func init() { register("C05", c05) }

type c05Prog struct {
	name     string
	decls    []string // "Decl e(A,B)." lines (kept first)
	rules    []string
	facts    []string // "e(1,2)." lines (may carry temporal annotations)
	temporal bool
	preds    []string // user predicate names (for renaming)
	// allFactOrders: every permutation of the facts even when there are more than 4
	allFactOrders bool
}

var c05VarRe = regexp.MustCompile(`\b[A-Z][A-Za-z0-9]*\b`)

func c05Vars(s string) []string {
	seen := map[string]bool{}
	var out []string
	for _, v := range c05VarRe.FindAllString(s, -1) {
		if v == "Decl" || v == "Package" || v == "Use" || strings.HasPrefix(v, "T0") {
			continue
		}
		if !seen[v] {
			seen[v] = true
			out = append(out, v)
		}
	}
	sort.Strings(out)
	return out
}

// renameVars applies a consistent bijective renaming of the variables of one clause.
func renameVars(clause string, mode int) string {
	if mode == 0 {
		return clause
	}
	vars := c05Vars(clause)
	m := map[string]string{}
	for i, v := range vars {
		switch mode {
		case 1: // rotate names among themselves
			m[v] = vars[(i+1)%len(vars)]
		case 2: // fresh long names, reversed order
			m[v] = fmt.Sprintf("V%02dlong%s", len(vars)-i, v)
		}
	}
	return c05VarRe.ReplaceAllStringFunc(clause, func(v string) string {
		if n, ok := m[v]; ok {
			return n
		}
		return v
	})
}

func renamePreds(s string, m map[string]string) string {
	for old, nw := range m {
		re := regexp.MustCompile(`(^|[^A-Za-z0-9_:.])` + regexp.QuoteMeta(old) + `\(`)
		s = re.ReplaceAllString(s, "${1}\x00"+nw+"(")
	}
	return strings.ReplaceAll(s, "\x00", "")
}

type c05Variant struct {
	desc   string
	src    string
	back   map[string]string // predicate name in result -> original
	store  string
	detOrd bool
	// baseFacts: facts that are not in src but pre-loaded into the store (store kind "merged-file": a file-backed
	// read store under a merged store)
	baseFacts []string
}

func permsOrSome(n int) [][]int {
	if n <= 4 {
		return permutations(n)
	}
	var out [][]int
	id := make([]int, n)
	for i := range id {
		id[i] = i
	}
	out = append(out, append([]int{}, id...))
	rev := make([]int, n)
	for i := range rev {
		rev[i] = n - 1 - i
	}
	out = append(out, rev)
	for r := 1; r < n; r++ {
		p := make([]int, n)
		for i := range p {
			p[i] = (i + r) % n
		}
		out = append(out, p)
	}
	for i := 0; i+1 < n; i++ {
		p := append([]int{}, id...)
		p[i], p[i+1] = p[i+1], p[i]
		out = append(out, p)
	}
	return out
}

func (p c05Prog) render(ruleOrder, factOrder []int, varMode int, predMap map[string]string, pkg bool, factsFirst bool) string {
	var sb strings.Builder
	if pkg {
		sb.WriteString("Package pkg!\n")
	}
	line := func(s string, isRule bool) {
		if isRule {
			s = renameVars(s, varMode)
		}
		if predMap != nil {
			s = renamePreds(s, predMap)
		}
		sb.WriteString(s + "\n")
	}
	for _, d := range p.decls {
		line(d, false)
	}
	writeFacts := func() {
		for _, i := range factOrder {
			line(p.facts[i], false)
		}
	}
	if factsFirst {
		writeFacts()
	}
	for _, i := range ruleOrder {
		line(p.rules[i], true)
	}
	if !factsFirst {
		writeFacts()
	}
	return sb.String()
}

func identity(n int) []int {
	out := make([]int, n)
	for i := range out {
		out[i] = i
	}
	return out
}

func (p c05Prog) variants(thorough bool) []c05Variant {
	var out []c05Variant
	idR, idF := identity(len(p.rules)), identity(len(p.facts))
	base := func(desc, src string, back map[string]string) {
		out = append(out, c05Variant{desc: desc, src: src, back: back, store: "multiarray"})
	}
	base("as written", p.render(idR, idF, 0, nil, false, true), nil)
	for _, ro := range permsOrSome(len(p.rules)) {
		base(fmt.Sprint("clause order ", ro), p.render(ro, idF, 0, nil, false, true), nil)
	}
	factOrders := permsOrSome(len(p.facts))
	if p.allFactOrders && len(p.facts) <= 5 {
		factOrders = permutations(len(p.facts))
	}
	for _, fo := range factOrders {
		base(fmt.Sprint("fact order ", fo), p.render(idR, fo, 0, nil, false, true), nil)
	}
	base("facts after rules", p.render(idR, idF, 0, nil, false, false), nil)
	for vm := 1; vm <= 2; vm++ {
		base(fmt.Sprint("variables renamed, mode ", vm), p.render(idR, idF, vm, nil, false, true), nil)
	}
	// predicate renamings
	sorted := append([]string{}, p.preds...)
	sort.Strings(sorted)
	rev := map[string]string{}
	revBack := map[string]string{}
	pre := map[string]string{}
	preBack := map[string]string{}
	for i, n := range sorted {
		nn := fmt.Sprintf("n%02d_%s", len(sorted)-i, n)
		rev[n] = nn
		revBack[nn] = n
		pre[n] = "common_prefix_" + n
		preBack["common_prefix_"+n] = n
	}
	base("predicates renamed (reverse alphabetical order)", p.render(idR, idF, 0, rev, false, true), revBack)
	base("predicates renamed (common prefix)", p.render(idR, idF, 0, pre, false, true), preBack)
	// package
	pkgBack := map[string]string{}
	for _, n := range p.preds {
		pkgBack["pkg."+n] = n
	}
	base("wrapped in Package pkg!", p.render(idR, idF, 0, nil, true, true), pkgBack)
	// stores and deterministic order
	kinds := mg.StoreKinds
	for _, k := range kinds {
		out = append(out, c05Variant{desc: "store " + k, src: p.render(idR, idF, 0, nil, false, true), store: k})
	}
	out = append(out, c05Variant{desc: "WithDeterministicOrder", src: p.render(idR, idF, 0, nil, false, true), store: "multiarray", detOrd: true})
	out = append(out, c05Variant{desc: "WithDeterministicOrder + reversed clauses", src: p.render(permsOrSome(len(p.rules))[len(permsOrSome(len(p.rules)))-1], idF, 0, rev, false, true), back: revBack, store: "simple", detOrd: true})
	if !p.temporal {
		// the base facts in a file-backed (simple column) store that is the read part of a merged store; the program
		// text holds declarations and rules only
		noFacts := p
		noFacts.facts = nil
		out = append(out, c05Variant{desc: "store merged-file (base facts in a file-backed read store)", src: noFacts.render(idR, nil, 0, nil, false, true), store: "merged-file", baseFacts: p.facts})
	}
	// plain repetitions: a different hash-map iteration order on each run (sampled, not enumerated)
	reps := 3
	if thorough {
		reps = 8
	}
	for i := 0; i < reps; i++ {
		base(fmt.Sprint("run again #", i+1), p.render(idR, idF, 0, nil, false, true), nil)
	}
	return out
}

// c05Eval evaluates a variant and returns the canonical result with names mapped back.
func c05Eval(v c05Variant, temporal bool) ([]string, error) {
	pi, err := mg.Analyze(v.src)
	if err != nil {
		return nil, fmt.Errorf("analysis: %w", err)
	}
	var store factstore.FactStore
	if v.store == "merged-file" {
		var texts []string
		for _, f := range v.baseFacts {
			texts = append(texts, strings.TrimSuffix(strings.TrimSpace(f), "."))
		}
		mem := factstore.NewMultiIndexedArrayInMemoryStore()
		for _, a := range evalGround(texts) {
			mem.Add(a)
		}
		var buf bytes.Buffer
		if err := (factstore.SimpleColumn{}).WriteTo(mem, &buf); err != nil {
			return nil, fmt.Errorf("writing the base facts: %w", err)
		}
		file, err := factstore.NewSimpleColumnStoreFromBytes(buf.Bytes())
		if err != nil {
			return nil, fmt.Errorf("opening the base facts: %w", err)
		}
		store = factstore.NewMergedStore([]factstore.ReadOnlyFactStore{file}, factstore.NewMultiIndexedArrayInMemoryStore())
	} else {
		store = mg.NewStore(v.store)
	}
	opts := []engine.EvalOption{}
	var ts *factstore.TemporalStore
	if temporal {
		ts = factstore.NewTemporalStore()
		opts = append(opts, engine.WithTemporalStore(ts))
	}
	if v.detOrd {
		opts = append(opts, engine.WithDeterministicOrder())
	}
	if err := mg.Eval(pi, store, opts...); err != nil {
		return nil, fmt.Errorf("evaluation: %w", err)
	}
	mapBack := func(a ast.Atom) ast.Atom {
		if v.back != nil {
			if orig, ok := v.back[a.Predicate.Symbol]; ok {
				a.Predicate.Symbol = orig
			}
		}
		return a
	}
	var out []string
	for _, a := range mg.Atoms(store) {
		if strings.HasSuffix(a.Predicate.Symbol, "__tmp") {
			continue
		}
		out = append(out, aggKey(mapBack(a)))
	}
	if ts != nil {
		for _, p := range ts.ListPredicates() {
			ts.GetAllFacts(ast.NewQuery(p), func(tf factstore.TemporalFact) error {
				out = append(out, aggKey(mapBack(tf.Atom))+fmt.Sprintf("@[%d,%d]", factstore.GetStartTime(tf.Interval), factstore.GetEndTime(tf.Interval)))
				return nil
			})
		}
	}
	sort.Strings(out)
	// duplicates removed (set semantics)
	var ded []string
	for i, s := range out {
		if i == 0 || out[i-1] != s {
			ded = append(ded, s)
		}
	}
	return ded, nil
}

func c05Corpus(thorough bool) []c05Prog {
	var out []c05Prog
	dot := func(xs []string) []string {
		var o []string
		for _, x := range xs {
			o = append(o, x+".")
		}
		return o
	}
	addPool := func(p *gen.Pool, idx [][]int, edbs [][]string, preds []string, tag string) {
		for _, rs := range idx {
			for ei, e := range edbs {
				var rules []string
				for _, i := range rs {
					rules = append(rules, p.Rules[i])
				}
				out = append(out, c05Prog{name: fmt.Sprintf("%s%v/edb%d", tag, rs, ei), decls: strings.Split(strings.TrimSpace(p.Decls), "\n"), rules: rules, facts: dot(e), preds: preds})
			}
		}
	}
	g := gen.PoolG(9)
	rec := recIdx(g)
	var gIdx [][]int
	for i := 0; i < len(rec); i++ {
		for j := i + 1; j < len(rec); j++ {
			if thorough || (i*7+j)%5 == 0 {
				gIdx = append(gIdx, []int{0, len(g.Rules) / 2, rec[i], rec[j]})
			}
		}
	}
	gE := [][]string{{"e(1,2)", "e(2,3)", "e(3,1)"}, {"e(1,2)", "e(2,1)", "e(2,3)", "e(3,3)"}}
	addPool(g, gIdx, gE, []string{"e", "p", "q"}, "G")
	n := gen.PoolN()
	var nIdx [][]int
	for i := 0; i < len(n.Rules); i++ {
		for j := i + 1; j < len(n.Rules); j++ {
			if thorough || (i+j)%3 == 0 {
				nIdx = append(nIdx, []int{0, 1, i, j})
			}
		}
	}
	nE := [][]string{{"e(1,2)", "e(2,3)", "u(1)", "u(3)"}, {"e(1,1)", "e(1,2)", "e(3,1)", "u(2)"}}
	addPool(n, nIdx, nE, []string{"e", "u", "p", "q", "w", "w2"}, "N")
	// mixed predicates: inline facts of predicates that also have rules are clauses like any other and
	// take part in the clause-order dimension (before, between and after the rules)
	mp := gen.PoolM()
	var mIdx [][]int
	for _, sub := range gen.Subsets(len(mp.Rules), 4, nil) {
		facts, rules := 0, 0
		for _, i := range sub {
			if gen.IsFact(mp.Rules[i]) {
				facts++
			} else {
				rules++
			}
		}
		if len(sub) >= 3 && facts >= 1 && rules >= 2 && (thorough || (sub[0]+2*sub[1]+3*sub[2]+5*len(sub))%4 == 0) {
			mIdx = append(mIdx, sub)
		}
	}
	addPool(mp, mIdx, [][]string{{"e(1,2)", "e(2,3)", "e(3,1)"}, {"e(1,1)", "e(1,2)", "e(2,7)", "e(8,3)"}}, []string{"e", "p", "q", "w", "v"}, "M")
	// programs whose result depends on how the store answers pattern queries with several constants and membership
	// tests: derivation into a predicate that also has base facts, aggregation over a single atom with constants
	fDecl := []string{"Decl e(A,B)."}
	fFacts := []string{"e(1,2).", "e(2,3).", "e(3,1).", "e(3,3).", "e(2,2)."}
	for i, rules := range [][]string{
		{"e(X,Z) :- e(X,Y), e(Y,Z).", "q(X,Y) :- e(X,Y), !e(Y,X)."},
		{"c(N) :- e(3,3) |> do fn:group_by(), let N = fn:count()."},
		{"c(N) :- e(1,3) |> do fn:group_by(), let N = fn:count().", "d(X) :- e(X,3), !e(X,2)."},
		{"e(X,X) :- e(X,_).", "w(X) :- e(X,_), !e(1,X)."},
		{"e(Y,X) :- e(X,Y).", "s(X,N) :- e(X,3) |> do fn:group_by(X), let N = fn:count()."},
	} {
		out = append(out, c05Prog{name: fmt.Sprint("F", i), decls: fDecl, rules: rules, facts: fFacts, preds: []string{"e", "q", "c", "d", "w", "s"}})
	}
	// predicates without arguments, positive and negated, with their facts among the base facts (in the merged-file
	// variant they sit in the file-backed read store) and without them
	zDecl := []string{"Decl item(A).", "Decl flag().", "Decl lamp()."}
	for i, facts := range [][]string{{"item(1).", "item(2).", "flag()."}, {"item(1).", "item(2)."}, {"item(1).", "flag().", "lamp()."}} {
		out = append(out, c05Prog{name: fmt.Sprint("Z", i), decls: zDecl, rules: []string{"blocked(X) :- item(X), flag().", "deliverable(X) :- item(X), !flag().", "both() :- flag(), lamp().", "dark(X) :- item(X), !lamp(), !both()."},
			facts: facts, preds: []string{"item", "flag", "lamp", "blocked", "deliverable", "both", "dark"}})
	}
	// aggregation
	ar := gen.AggRules([]string{"fn:count()", "fn:sum(V)", "fn:collect_distinct(V)", "fn:max(V)"})
	for i := 0; i < len(ar); i++ {
		for j := i + 1; j < len(ar); j++ {
			if ar[i].Head != ar[j].Head || (!thorough && (i+j)%4 != 0) {
				continue
			}
			rules := []string{ar[i].Text, ar[j].Text}
			if ar[i].UsesT || ar[j].UsesT {
				rules = append(rules, "t(X,Y) :- p(X,Y).", "t(X,Y) :- p(X,Z), t(Z,Y).")
			}
			out = append(out, c05Prog{name: fmt.Sprintf("A[%d,%d]", i, j), decls: []string{"Decl p(A,B).", "Decl q(A)."}, rules: rules,
				facts: []string{"p(1,2).", "p(2,3).", "p(1,3).", "p(3,3).", "q(1).", "q(3)."}, preds: []string{"p", "q", "t", "h", "g", "k"}})
		}
	}
	// temporal
	tFacts := []string{"a(1)@[2024-01-01, 2024-01-05].", "a(2)@[2024-01-03, 2024-01-04].", "a(1)@[2024-02-01, 2024-02-02]."}
	tRules := []string{
		"b(X)@[S,E] :- a(X)@[S,E].",
		"c(X)@[S,E] :- b(X)@[S,E].",
		"d(X)@[S,E] :- c(X)@[S,E].",
		"f(X)@[S,E] :- d(X)@[S,E], b(X)@[S,E].",
		"g(X) :- a(X)@[S,E], b(X)@[S,E].",
		"h(X,S) :- c(X)@[S,_].",
		"k(X)@[S,E] :- a(X)@[S,E], !c(X)@[S,E].",
	}
	tIdx := [][]int{{0, 1, 2}, {0, 1, 2, 3}, {0, 1, 4}, {0, 1, 5}, {0, 1, 2, 5}, {0, 1, 6}, {2, 1, 0}, {0, 1, 2, 3, 4, 5}}
	for _, rs := range tIdx {
		var rules []string
		for _, i := range rs {
			rules = append(rules, tRules[i])
		}
		out = append(out, c05Prog{name: fmt.Sprint("T", rs), decls: []string{"Decl a(X) temporal bound [/number]."}, rules: rules, facts: tFacts, temporal: true,
			preds: []string{"a", "b", "c", "d", "f", "g", "h", "k"}})
	}
	// several intervals of one atom: the shape of the store's interval tree depends on the order of the base facts,
	// the answers of lookups by instant or range (concrete body intervals, diamond operators) must not
	t2Facts := []string{"a(1)@[2023-08-01, 2023-08-20].", "a(1)@[2023-09-01, 2023-09-20].", "a(1)@[2023-10-01, 2023-10-20].", "a(1)@[2023-11-01, 2023-11-12]."}
	t2Rules := []string{
		"busy(X) :- a(X)@[2023-10-05, 2023-10-06].",
		"recent(X) :- <-[0s, 10d] a(X).",
		"older(X) :- <-[30d, 50d] a(X).",
		"cont(X) :- [-[5d, 6d] a(X).",
		"early(X) :- a(X)@[2023-08-02, 2023-08-03].",
		"span(X)@[S,E] :- <-[60d, 80d] a(X)@[S,E].",
	}
	for _, rs := range [][]int{{0}, {1}, {2}, {3}, {4}, {5}, {0, 1, 2, 4}} {
		var rules []string
		for _, i := range rs {
			rules = append(rules, t2Rules[i])
		}
		// 3, 4 and 5 intervals of the same atom, every order of the facts (a rotation caused by the last
		// insertion is not repaired by a later one)
		for k, facts := range [][]string{t2Facts[1:], t2Facts, append(append([]string{}, t2Facts...), "a(1)@[2023-07-01, 2023-07-20].")} {
			out = append(out, c05Prog{name: fmt.Sprintf("T2.%d-%v", k+3, rs), decls: []string{"Decl a(X) temporal bound [/number]."}, rules: rules, facts: facts, temporal: true,
				preds: []string{"a", "busy", "recent", "older", "cont", "early", "span"}, allFactOrders: true})
		}
		// nested and overlapping intervals and a second atom (rotations, reversal, transpositions of the fact order)
		out = append(out, c05Prog{name: fmt.Sprint("T3-", rs), decls: []string{"Decl a(X) temporal bound [/number]."}, rules: rules,
			facts: append(append([]string{}, t2Facts...), "a(1)@[2023-07-01, 2023-11-14].", "a(2)@[2023-10-05, 2023-10-05]."), temporal: true,
			preds: []string{"a", "busy", "recent", "older", "cont", "early", "span"}})
	}
	return out
}

func c05(r *rt.Run) {
	r.Assumptions = []string{
		"differential oracle: all presentations of one base program must give the same canonical fact set (names mapped back; collected lists as multisets; temporal facts with their intervals)",
		"hash-map iteration order is owned by the explorer (vmap build overlay: every range-over-map in the repository iterates in an order the harness chooses): 4 global modes and every single-point deviation are executed; the plain re-runs remain as a cross-check",
	}
	r.SetBudget(240*time.Second, 3000*time.Second)
	corpus := c05Corpus(r.Thorough())
	r.Extra["base_programs"] = len(corpus)
	rt.ForRange(len(corpus), func(i int) {
		if r.Expired("C05 corpus") {
			return
		}
		p := corpus[i]
		vs := p.variants(r.Thorough())
		var ref []string
		var refDesc string
		r.Add("states", 1)
		differs := false
		for vi, v := range vs {
			r.Add("evaluations", 1)
			r.Add("transitions", 1)
			var got []string
			var err error
			pv, st := rt.Try(func() { got, err = c05Eval(v, p.temporal) })
			w := map[string]any{"program": p.name, "variant": v.desc, "source": v.src, "store": v.store, "reference_variant": refDesc}
			if pv != nil {
				r.Violate("panic", fmt.Sprintf("%s / %s: %v at %s", p.name, v.desc, pv, rt.ShortStack(st)), w)
				continue
			}
			r.Add("traces_validated_against_impl", 1)
			if vi == 0 {
				if err != nil {
					r.Add("base_programs_rejected", 1)
					break
				}
				ref, refDesc = got, v.desc
				r.Outcome(strings.Join(ref, "|"))
				continue
			}
			if err != nil {
				kind := "variant-rejected"
				if strings.Contains(v.desc, "Package") {
					kind = "variant-rejected-package"
				}
				if p.temporal {
					kind += "-temporal"
				}
				r.Violate(kind, fmt.Sprintf("%s: accepted as written but %q fails: %v\n%s", p.name, v.desc, err, v.src), w)
				continue
			}
			if strings.Join(got, "|") != strings.Join(ref, "|") {
				differs = true
				a, b := mg.Diff(ref, got)
				kind := "result-depends-on-"
				switch {
				case strings.HasPrefix(v.desc, "clause order"):
					kind += "clause-order"
				case strings.HasPrefix(v.desc, "fact order"), v.desc == "facts after rules":
					kind += "fact-order"
				case strings.HasPrefix(v.desc, "variables"):
					kind += "variable-names"
				case strings.HasPrefix(v.desc, "predicates"):
					kind += "predicate-names"
				case strings.Contains(v.desc, "Package"):
					kind += "package"
				case strings.HasPrefix(v.desc, "store"):
					kind += "store-" + v.store
				case strings.HasPrefix(v.desc, "run again"):
					kind += "run"
				default:
					kind += "deterministic-order-option"
				}
				if p.temporal {
					kind += "-temporal"
				}
				// hash-collision conflation in hash-keyed stores is C06's known finding
				if (v.store == "simple" || v.store == "indexed" || v.store == "multi" || strings.HasPrefix(v.store, "teeing")) && len(b) == 0 && len(a) > 0 && strings.HasPrefix(v.desc, "store") {
					kind = "missing-facts-hash-collision-candidate-" + v.store
				}
				r.Violate(kind, fmt.Sprintf("%s: %q gives a different result than %q: only in reference %s; only in variant %s\n%s", p.name, v.desc, refDesc, mg.Short(a), mg.Short(b), v.src), w)
			}
		}
		if len(ref) > len(p.facts) {
			r.Add("distinct_nontrivial", 1)
		}
		_ = differs
		if r.SampleN() < 5 && i%97 == 0 {
			r.Sample(map[string]any{"program": p.name, "variants": len(vs), "as_written": vs[0].src})
		}
	})
	_ = oracle.Key
	c05MapOrder(r)
	r.Finish("base programs: 4-rule recursive programs of pool G, negation pool N, 3-4-clause programs of pool M (predicates with inline facts and rules), pairs of aggregating rules (pool A), temporal chains (pool T), lookups by instant/range over 4-6 intervals of one atom (T2, T3); for each: every clause order (<=4 clauses: all permutations), every fact order (rotations, reversal, transpositions), 2 consistent variable renamings, 2 predicate renamings, package wrapping, 8 store kinds, WithDeterministicOrder, and repeated runs; map iteration order: 4 global modes + every single deviation for a sub-corpus; " +
		"all variants must produce the same canonical fact set; non-trivial = base programs that derive facts")
}
