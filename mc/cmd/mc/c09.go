package main

import (
	"fmt"
	"math"
	"strings"
	"time"
	"unicode/utf8"

	"codeberg.org/TauCeti/mangle-go/ast"
	"codeberg.org/TauCeti/mangle-go/functional"
	"codeberg.org/TauCeti/mangle-go/parse"

	"verifmc/gen"
	"verifmc/mg"
	"verifmc/oracle"
	"verifmc/rt"
)

func init() { register("C09", c09) }

// roundTripConst prints, parses and evaluates a constant; returns "" or a violation detail.
func roundTripConst(c ast.Constant) (kind, detail, printed string) {
	var text string
	var back ast.Constant
	var perr error
	pv, st := rt.Try(func() {
		text = c.String()
		t, err := parse.BaseTerm(text)
		if err != nil {
			perr = err
			return
		}
		e, err := functional.EvalExpr(t, ast.ConstSubstList{})
		if err != nil {
			perr = fmt.Errorf("eval: %w", err)
			return
		}
		bc, ok := e.(ast.Constant)
		if !ok {
			perr = fmt.Errorf("not a constant after evaluation: %v", e)
			return
		}
		back = bc
	})
	if pv != nil {
		return "panic", fmt.Sprintf("%v at %s", pv, rt.ShortStack(st)), text
	}
	if perr != nil {
		return "does-not-parse", fmt.Sprintf("printed form %q does not parse back: %v", text, perr), text
	}
	if oracle.Key(back) != oracle.Key(c) || !back.Equals(c) {
		return "round-trip-differs", fmt.Sprintf("printed form %q parses back to a different constant (%s)", text, oracle.Key(back)), text
	}
	return "", "", text
}

func c09(r *rt.Run) {
	r.Assumptions = []string{
		"strings are valid UTF-8; names match the lexer's CONSTANT rule; floats are finite; timestamps inside @[...] have second resolution (documented printer)",
		"constants are compared after functional.EvalExpr of the parsed constructor expression, by Equals and by the independent structural key",
	}
	r.SetBudget(200*time.Second, 1800*time.Second)
	constCase := func(c ast.Constant, family string) {
		r.Add("states", 1)
		r.Add("evaluations", 1)
		r.Add("transitions", 2)
		r.Add("traces_validated_against_impl", 1)
		kind, detail, printed := roundTripConst(c)
		r.Outcome(printed)
		if kind != "" {
			k2 := kind + "-" + family
			r.Violate(k2, detail+c09Zone, map[string]any{"family": family, "key": oracle.Key(c), "printed": printed, "zone": c09Zone})
		}
	}
	// (a) strings
	var strs []string
	for b := 0; b < 0x80; b++ {
		strs = append(strs, string([]byte{byte(b)}))
	}
	crit := []string{"\"", "'", "\\", "`", "\n", "\r", "\t", "\x00", "a", "é", " ", "😀", "\x7f", "{", "x", "\ufffd"}
	// every boundary code point of the UTF-8 encoding lengths, the replacement character, BOM, line separators, noncharacters
	for _, cp := range []rune{0x80, 0xff, 0x100, 0x7ff, 0x800, 0xd7ff, 0xe000, 0xfeff, 0xfffd, 0xfffe, 0xffff, 0x10000, 0x10ffff, 0x2028, 0x2029, 0x85, 0xa0} {
		strs = append(strs, string(cp), "a"+string(cp)+"b", string(cp)+string(cp))
	}
	for _, a := range crit {
		for _, b := range crit {
			strs = append(strs, a+b)
		}
	}
	crit3 := []string{"\"", "\\", "\r", "a", "\n", "u", "{"}
	for _, a := range crit3 {
		for _, b := range crit3 {
			for _, c := range crit3 {
				strs = append(strs, a+b+c)
			}
		}
	}
	if r.Thorough() {
		for _, a := range crit {
			for _, b := range crit {
				for _, c := range crit {
					strs = append(strs, a+b+c)
				}
			}
		}
	}
	for _, s := range strs {
		if !utf8.ValidString(s) {
			continue
		}
		fam := "string"
		if strings.Contains(s, "\r") {
			fam = "string-with-CR"
		}
		constCase(ast.String(s), fam)
	}
	// (b) byte strings
	for b := 0; b < 256; b++ {
		constCase(ast.Bytes([]byte{byte(b)}), "bytes")
	}
	bcrit := []byte{0x00, 0x0a, 0x0d, 0x22, 0x27, 0x5c, 0x80, 0xff, 'a', '`', 0x09}
	for _, a := range bcrit {
		for _, b := range bcrit {
			constCase(ast.Bytes([]byte{a, b}), "bytes")
			if r.Thorough() {
				for _, c := range bcrit {
					constCase(ast.Bytes([]byte{a, b, c}), "bytes")
				}
			}
		}
	}
	// (c) numbers, floats, times, durations
	for _, n := range c07I {
		constCase(ast.Number(n), "number")
	}
	for _, f := range []float64{0, 1, -1, 2, 100, 1.5, -1.5, 0.1, math.Copysign(0, -1), 5e-324, math.MaxFloat64, -math.MaxFloat64, 1e21, 1e22, 1e-7, 123456789.125, 1e15, 1e16, 9007199254740993} {
		constCase(ast.Float64(f), "float")
	}
	for _, n := range []int64{math.MinInt64, -1, 0, 1, 999999999, 1000000000, 1000000001, 1700000000000000000, math.MaxInt64} {
		fam := "time"
		constCase(ast.Time(n), fam)
		constCase(ast.Duration(n), "duration")
	}
	for _, d := range []int64{1500, 60000000000, 3600000000000, 86400000000000, -90000000000, 1234567891234} {
		constCase(ast.Duration(d), "duration")
	}
	// (d) structured universe
	U := gen.Universe(true)
	for _, u := range U {
		constCase(u.C, "structured")
	}
	// (d2) every container position x every leaf whose printed form needs care: what is printed for a value must not
	// depend on where in a list, pair, map or struct it stands
	{
		one, two, three := ast.Number(1), ast.Number(2), ast.Number(3)
		ka, kb, kc := name2("/a"), name2("/b"), name2("/c")
		T := []ast.Constant{ast.String("\""), ast.String("\\"), ast.String("a\"b\\c"), ast.String("é\n\t"), ast.String("x\ry"), ast.Bytes([]byte{'"'}), ast.Bytes([]byte{0x80, '\\'}),
			ast.Time(1), ast.Time(1700000000000000000), ast.Duration(1500), ast.Duration(-90000000000), ast.Number(-1), ast.Float64(-1.5), ast.Float64(2),
			ast.List([]ast.Constant{ast.Number(-1)}), ast.List([]ast.Constant{ast.Float64(-1.5), two}), name2("/a"), ast.String("/a"), ast.String("1"), ast.ListNil, ast.MapNil, ast.StructNil}
		for _, x := range T {
			for _, y := range T {
				x, y := x, y
				constCase(ast.List([]ast.Constant{x, y}), "container-position")
				constCase(ast.List([]ast.Constant{one, x, y}), "container-position")
				constCase(ast.Pair(&x, &y), "container-position")
				inner := ast.Pair(&y, &x)
				constCase(ast.Pair(&x, &inner), "container-position")
				constCase(*ast.Map(map[*ast.Constant]*ast.Constant{&one: &x, &two: &y}), "container-position")
				constCase(*ast.Map(map[*ast.Constant]*ast.Constant{&one: &x, &two: &y, &three: &x}), "container-position")
				if !x.Equals(y) {
					constCase(*ast.Map(map[*ast.Constant]*ast.Constant{&x: &one, &y: &two}), "container-position")
				}
				constCase(*ast.Struct(map[*ast.Constant]*ast.Constant{&ka: &x, &kb: &y}), "container-position")
				constCase(*ast.Struct(map[*ast.Constant]*ast.Constant{&ka: &x, &kb: &y, &kc: &x}), "container-position")
				lx, ly := ast.List([]ast.Constant{x}), ast.List([]ast.Constant{y})
				constCase(ast.List([]ast.Constant{lx, ly}), "container-position")
				lxy := ast.List([]ast.Constant{x, y})
				constCase(*ast.Struct(map[*ast.Constant]*ast.Constant{&ka: &one, &kb: &lxy}), "container-position")
			}
		}
	}
	// names over every permitted character
	for _, ch := range "azAZ09.-_~%" {
		for _, ch2 := range "a.%-~_5" {
			n, err := ast.Name("/" + string(ch) + string(ch2) + "/x" + string(ch))
			if err == nil {
				constCase(n, "name")
			}
		}
	}
	// (e) atoms over a sub-universe
	step := len(U)/120 + 1
	for i := 0; i < len(U); i += step {
		for j := 0; j < len(U); j += step * 7 {
			a := ast.NewAtom("q", U[i].C, U[j].C)
			r.Add("states", 1)
			r.Add("evaluations", 1)
			r.Add("traces_validated_against_impl", 1)
			text := a.String()
			var detail string
			pv, st := rt.Try(func() {
				b, err := parse.Atom(text)
				if err != nil {
					detail = "atom does not parse back: " + err.Error()
					return
				}
				be, err := functional.EvalAtom(b, ast.ConstSubstList{})
				if err != nil {
					detail = "atom does not evaluate: " + err.Error()
					return
				}
				if !be.Equals(a) {
					detail = "atom parses back to " + be.String()
				}
			})
			if pv != nil {
				detail = fmt.Sprintf("panic %v at %s", pv, rt.ShortStack(st))
			}
			if detail != "" {
				r.Violate("atom-round-trip", text+": "+detail, map[string]any{"printed": text})
			}
		}
	}
	// (f) clauses
	c09Clauses(r)
	// (g) type expressions as bounds
	c09Types(r)
	// (h) configuration: the process-wide default timezone. Everything that can carry an instant (time and
	// duration constants, the structured universe, every clause family) is round-tripped again under each zone.
	for _, z := range c09Zones() {
		ast.SetDefaultTimezone(z.loc)
		c09Zone = " [default timezone " + z.name + "]"
		for _, n := range []int64{math.MinInt64, -1, 0, 1, 999999999, 1000000000, 1000000001, 1700000000000000000, 1710052200000000000, math.MaxInt64} {
			constCase(ast.Time(n), "time")
			constCase(ast.Duration(n), "duration")
		}
		for _, u := range U {
			constCase(u.C, "structured")
		}
		c09Clauses(r)
		r.Add("timezone_configurations", 1)
	}
	ast.SetDefaultTimezone(time.UTC)
	c09Zone = ""
	r.Extra["distinct_nontrivial"] = r.Get("states")
	r.Finish("every family that can carry an instant repeated under 3 non-UTC default timezones (fixed +05:30, -08:00, America/New_York); strings: every single ASCII byte, all 2-strings over 15 critical characters, 3-strings over 7; bytes: every single byte, all pairs over 11; boundary ints/floats/times/durations; the structured constant universe; every ordered pair of 22 leaves that need care when printed in 11 container positions (list, pair, nested pair, map value, map key, struct field first / later / third, nested list, list inside a struct); atoms; " +
		"every clause of the C04 space that parses plus temporal clauses (head annotations x operators x bounds); type expressions as bound declarations; each printed, parsed back and compared (constants after evaluation)")
}

func clauseEq(a, b ast.Clause) string {
	if !a.Head.Equals(b.Head) {
		return "heads differ"
	}
	if (a.HeadTime == nil) != (b.HeadTime == nil) {
		return "head annotation lost or invented"
	}
	if a.HeadTime != nil && a.HeadTime.String() != b.HeadTime.String() {
		return fmt.Sprintf("head annotation differs: %s vs %s", a.HeadTime.String(), b.HeadTime.String())
	}
	if len(a.Premises) != len(b.Premises) {
		return fmt.Sprintf("%d vs %d premises", len(a.Premises), len(b.Premises))
	}
	for i := range a.Premises {
		if !a.Premises[i].Equals(b.Premises[i]) {
			// temporal bounds: Equals on duration bounds is itself suspect; fall back to printed comparison
			if a.Premises[i].String() != b.Premises[i].String() {
				return fmt.Sprintf("premise %d differs: %s vs %s", i, a.Premises[i], b.Premises[i])
			}
			return fmt.Sprintf("premise %d prints identically (%s) but Equals says different", i, a.Premises[i])
		}
	}
	if (a.Transform == nil) != (b.Transform == nil) {
		return "transform lost or invented"
	}
	// transforms are compared structurally along the whole chain (t |> t2 |> ...), not by printed form
	ta, tb := a.Transform, b.Transform
	for depth := 0; ta != nil || tb != nil; depth++ {
		if (ta == nil) != (tb == nil) {
			return fmt.Sprintf("transform chain differs in length (stage %d lost or invented)", depth)
		}
		if len(ta.Statements) != len(tb.Statements) {
			return fmt.Sprintf("transform stage %d: %d vs %d statements", depth, len(ta.Statements), len(tb.Statements))
		}
		for i := range ta.Statements {
			sa, sb := ta.Statements[i], tb.Statements[i]
			if (sa.Var == nil) != (sb.Var == nil) || sa.Var != nil && *sa.Var != *sb.Var || !sa.Fn.Equals(sb.Fn) {
				return fmt.Sprintf("transform stage %d statement %d differs", depth, i)
			}
		}
		ta, tb = ta.Next, tb.Next
	}
	return ""
}

// c09Zone names the configured default timezone in reports ("" = UTC, the default).
var c09Zone string

type c09ZoneT struct {
	name string
	loc  *time.Location
}

// c09Zones: a zone with daylight saving (when the host has the zone database), fixed offsets on both sides of
// UTC including a half-hour one.
func c09Zones() []c09ZoneT {
	zs := []c09ZoneT{{"+05:30", time.FixedZone("IST", 5*3600+1800)}, {"-08:00", time.FixedZone("PST", -8*3600)}}
	if l, err := time.LoadLocation("America/New_York"); err == nil {
		zs = append(zs, c09ZoneT{"America/New_York", l})
	}
	return zs
}

func c09ClauseCase(r *rt.Run, text string, family string) {
	var detail string
	parsedOK := false
	pv, st := rt.Try(func() {
		c1, err := parse.Clause(text)
		if err != nil {
			return
		}
		parsedOK = true
		p1 := c1.String()
		c2, err := parse.Clause(p1)
		if err != nil {
			detail = fmt.Sprintf("printed clause %q does not parse back: %v", p1, err)
			return
		}
		if d := clauseEq(c1, c2); d != "" {
			detail = fmt.Sprintf("clause %q printed as %q parses back differently: %s", text, p1, d)
			return
		}
		if p2 := c2.String(); p2 != p1 {
			detail = fmt.Sprintf("print∘parse∘print is not a fixpoint: %q vs %q", p1, p2)
		}
	})
	if !parsedOK && pv == nil {
		r.Add("clauses_not_parsing", 1)
		return
	}
	r.Add("states", 1)
	r.Add("evaluations", 1)
	r.Add("transitions", 3)
	r.Add("traces_validated_against_impl", 1)
	if pv != nil {
		r.Violate("panic-clause", fmt.Sprintf("%q: %v at %s", text, pv, rt.ShortStack(st)), map[string]any{"clause": text})
		return
	}
	if detail != "" {
		r.Violate("clause-round-trip-"+family, detail+c09Zone, map[string]any{"clause": text, "family": family, "zone": c09Zone})
	}
}

// c09ClauseAST round-trips a clause given as a syntax tree: print, parse, compare structurally, print again.
func c09ClauseAST(r *rt.Run, c1 ast.Clause, desc, family string) {
	var detail string
	pv, st := rt.Try(func() {
		p1 := c1.String()
		c2, err := parse.Clause(p1)
		if err != nil {
			detail = fmt.Sprintf("%s: printed clause %q does not parse back: %v", desc, p1, err)
			return
		}
		if d := clauseEq(c1, c2); d != "" {
			detail = fmt.Sprintf("%s: printed as %q it parses back differently: %s", desc, p1, d)
			return
		}
		if p2 := c2.String(); p2 != p1 {
			detail = fmt.Sprintf("%s: print∘parse∘print is not a fixpoint: %q vs %q", desc, p1, p2)
		}
	})
	r.Add("states", 1)
	r.Add("evaluations", 1)
	r.Add("transitions", 3)
	r.Add("traces_validated_against_impl", 1)
	if pv != nil {
		r.Violate("panic-clause", fmt.Sprintf("%s: %v at %s", desc, pv, rt.ShortStack(st)), map[string]any{"clause": c1.String()})
		return
	}
	if detail != "" {
		r.Violate("clause-round-trip-"+family, detail+c09Zone, map[string]any{"clause": c1.String(), "family": family, "zone": c09Zone})
	}
}

func c09Clauses(r *rt.Run) {
	// the C04 clause space up to k=2 (k=3 in thorough)
	k := 2
	if r.Thorough() {
		k = 3
	}
	var rec func(cur []string, used []bool)
	rec = func(cur []string, used []bool) {
		if len(cur) > 0 {
			body := strings.Join(cur, ", ")
			for _, h := range c04Heads {
				for _, t := range c04Transforms {
					c09ClauseCase(r, h+" :- "+body+t+".", "plain")
				}
			}
		}
		if len(cur) == k {
			return
		}
		for i, l := range c04Lits {
			if !used[i] {
				used[i] = true
				rec(append(cur, l), used)
				used[i] = false
			}
		}
	}
	rec(nil, make([]bool, len(c04Lits)))
	// clauses that end in a name constant, and chained transforms
	for _, body := range []string{"q(X), X = /rate/50%", "q(X), r(X, \"a%b\")", "q(X), r(X, \"%s %d %v %%\")", "q(/a%20b), q(X)", "q(X), X != b\"%x\"", "q(X), X = /a", "X = /a, q(X)", "q(X), X != /a/b", "q(X), /a = X", "q(X), X = /a.b", "q(X), !s(/a)", "q(X), X = \"s\"", "q(X), X = 1.5"} {
		for _, h := range c04Heads {
			for _, t := range append(append([]string{}, c04Transforms...), " |> let Y = fn:plus(X, 1) |> let Z = fn:plus(Y, 1)", " |> do fn:group_by(X), let Y = fn:count() |> let Z = fn:plus(Y, 1)", " |> let Y = /a", " |> do fn:group_by(), let Y = fn:count() |> let Z = /a",
				" |> let Y = fn:plus(X, 1) |> let Z = fn:plus(Y, 1) |> let W = fn:plus(Z, 1)", " |> do fn:group_by(X), let Y = fn:count() |> let Z = fn:plus(Y, 1) |> let W = fn:plus(Z, 1) |> let V = fn:plus(W, 1)") {
				c09ClauseCase(r, h+" :- "+body+t+".", "plain-extra")
				c09ClauseCase(r, h+" :- "+body+t+" .", "plain-extra")
			}
		}
	}
	// transform chains built through the AST (each stage parsed on its own and linked by Next), so that a stage the
	// parser would lose when reading the whole chain is still part of the tree that is printed
	stages := []string{"do fn:group_by(X), let Y = fn:count()", "let Z = fn:plus(Y, 1)", "let W = fn:plus(Z, 1)", "let V = fn:mult(W, 2)", "let U = /a"}
	for n := 2; n <= len(stages); n++ {
		for start := 0; start+n <= len(stages); start++ {
			var chain []*ast.Transform
			ok := true
			for _, st := range stages[start : start+n] {
				c, err := parse.Clause("h(X) :- q(X) |> " + st + ".")
				if err != nil || c.Transform == nil {
					ok = false
					break
				}
				t := *c.Transform
				t.Next = nil
				chain = append(chain, &t)
			}
			if !ok {
				continue
			}
			for i := 0; i+1 < len(chain); i++ {
				chain[i].Next = chain[i+1]
			}
			base, err := parse.Clause("h(X) :- q(X), r(X, Y).")
			if err != nil {
				continue
			}
			base.Transform = chain[0]
			c09ClauseAST(r, base, fmt.Sprintf("chain of %d transforms built through the AST", n), "transform-chain-ast")
		}
	}
	// temporal clauses
	heads := []string{"h(X)", "h(X)@[2024-01-01]", "h(X)@[2024-01-01, 2024-01-05]", "h(X)@[S, E]", "h(X)@[_, 2024-01-05]", "h(X)@[2024-01-01, _]", "h(X)@[now]", "h(X)@[2024-01-01T10:30:00, now]"}
	bounds := []string{"0s", "1s", "90m", "7d", "24h", "500ms", "now", "2024-01-01", "X1", "_"}
	ops := []string{"<-", "[-", "<+", "[+"}
	annots := []string{"", "@[S, E]", "@[T]", "@[2024-01-01, 2024-01-02]", "@[_, E]", "@[now]"}
	for _, h := range heads {
		for _, an := range annots {
			c09ClauseCase(r, h+" :- a(X)"+an+".", "temporal-annotation")
			c09ClauseCase(r, h+" :- a(X)"+an+", !b(X).", "temporal-annotation")
		}
		for _, op := range ops {
			for _, b1 := range bounds {
				for _, b2 := range bounds {
					fam := "temporal-operator"
					if isDurationText(b1) || isDurationText(b2) {
						fam = "temporal-operator-duration-bound"
					}
					c09ClauseCase(r, fmt.Sprintf("%s :- %s[%s, %s] a(X).", h, op, b1, b2), fam)
				}
			}
		}
	}
	// an operator and an annotation on the same literal; sub-second timestamps
	for _, op := range ops {
		for _, an := range annots[1:] {
			for _, w := range []string{"0s, 7d", "now, 1s", "_, 2024-01-01"} {
				c09ClauseCase(r, fmt.Sprintf("h(X) :- %s[%s] a(X)%s.", op, w, an), "temporal-operator-with-annotation")
				c09ClauseCase(r, fmt.Sprintf("h(X)@[S, E] :- q(X), %s[%s] a(X)%s, !b(X).", op, w, an), "temporal-operator-with-annotation")
			}
		}
	}
	for _, ts := range []string{"2024-01-01T10:30:00.5", "2024-01-01T10:30:00.000000001Z", "2024-01-01T10:30:00.123Z", "1970-01-01T00:00:00.999999999"} {
		c09ClauseCase(r, "a(1)@["+ts+"].", "temporal-subsecond")
		c09ClauseCase(r, "h(X)@["+ts+", _] :- a(X)@[_, "+ts+"].", "temporal-subsecond")
		c09ClauseCase(r, "h(X) :- <-[_, "+ts+"] a(X).", "temporal-subsecond")
	}
	// facts with annotations
	for _, an := range []string{"@[2024-01-01]", "@[2024-01-01, 2024-02-01]", "@[_, 2024-02-01]", "@[2024-01-01T00:00:01, _]"} {
		c09ClauseCase(r, "a(1)"+an+".", "temporal-fact")
	}
}

func isDurationText(s string) bool {
	return len(s) > 1 && s[0] >= '0' && s[0] <= '9' && !strings.Contains(s, "-")
}

func c09Types(r *rt.Run) {
	types := []string{"/any", "/number", "/string", "/name", "/float64", "/bytes", "/time", "/duration", "/a", "/a/b",
		"fn:Singleton(/a/x)", "fn:Union(/number, /string)", "fn:Pair(/number, /name)", "fn:List(/number)", "fn:Map(/name, /number)",
		"fn:Struct(/f, /number)", "fn:Struct(/f, /number, fn:opt(/g, /string))", "fn:Tuple(/number, /string, /name)", "fn:Option(/number)",
		"fn:List(fn:Pair(/number, fn:List(/string)))", "fn:Union()", "fn:Fun(/number, /string)", ".Pair</number, /string>", ".List</number>", ".Struct<a: /number, opt b: /string>"}
	for _, t := range types {
		for _, t2 := range types[:6] {
			text := fmt.Sprintf("Decl p(X, Y) bound[%s, %s].", t, t2)
			r.Add("evaluations", 1)
			var detail string
			ok := false
			pv, st := rt.Try(func() {
				u, err := mg.Parse(text)
				if err != nil || len(u.Decls) == 0 || len(u.Decls[len(u.Decls)-1].Bounds) == 0 {
					return
				}
				ok = true
				d := u.Decls[len(u.Decls)-1]
				b := d.Bounds[0].Bounds
				text2 := fmt.Sprintf("Decl p(X, Y) bound[%s, %s].", b[0].String(), b[1].String())
				u2, err := mg.Parse(text2)
				if err != nil {
					detail = fmt.Sprintf("printed bounds %q do not parse back: %v", text2, err)
					return
				}
				b2 := u2.Decls[len(u2.Decls)-1].Bounds[0].Bounds
				if !b[0].Equals(b2[0]) || !b[1].Equals(b2[1]) {
					detail = fmt.Sprintf("bounds %q print as %q and parse back differently", text, text2)
				}
			})
			if pv != nil {
				r.Violate("panic-types", fmt.Sprintf("%q: %v at %s", text, pv, rt.ShortStack(st)), map[string]any{"decl": text})
				continue
			}
			if !ok {
				r.Add("type_decls_not_parsing", 1)
				continue
			}
			r.Add("states", 1)
			r.Add("traces_validated_against_impl", 1)
			if detail != "" {
				r.Violate("type-round-trip", detail, map[string]any{"decl": text})
			}
		}
	}
}
