package main

import (
	"bytes"
	"compress/gzip"
	"fmt"
	"os"
	"path/filepath"
	"sort"
	"strconv"
	"strings"
	"sync/atomic"
	"time"

	"codeberg.org/TauCeti/mangle-go/analysis"
	"codeberg.org/TauCeti/mangle-go/ast"
	"codeberg.org/TauCeti/mangle-go/builtin"
	"codeberg.org/TauCeti/mangle-go/engine"
	"codeberg.org/TauCeti/mangle-go/factstore"
	"codeberg.org/TauCeti/mangle-go/parse"
	"github.com/antlr4-go/antlr/v4"
	"github.com/klauspost/compress/zstd"

	pgen "codeberg.org/TauCeti/mangle-go/parse/gen"

	"verifmc/mg"
	"verifmc/rt"
)

func init() {
	register("C10", c10)
	workerFns["C10"] = c10Worker
}

var c10Tokens = []string{"p", "(", ")", "X", "_", ",", ".", ":-", "⟸", "!", "=", "!=", "<", "<=", "|>", "do", "let", "fn:group_by", "fn:f", "[", "]", "{", "}", ":", "@",
	"<-", "[-", "<+", "now", "1d", "2024-01-01", "\"s\"", "b\"s\"", "/c", "1", "1.5", "Decl", "bound", "descr", "inclusion", "temporal", "Package", "Use", ".T<", ">", "opt", "-1", "`x`", "'"}

var c10TokensSmall = []string{"p", "(", ")", "X", ",", ".", ":-", "!", "=", "|>", "do", "let", "fn:f", "[", "]", "{", "}", ":", "@", "[-", "now", "1d", "\"s\"", "/c", "1", "Decl", "bound", ".T<", ">"}

type c10Job struct {
	label string
	run   func(probe func(kind, input string))
}

var c10Current atomic.Value // string: the input being probed (for the watchdog)

// c10Probe offers one input to one entry point; returns a violation or nil.
func c10Probe(kind, input string, counters map[string]int64) *rt.Violation {
	c10Current.Store(kind + "\x00" + input)
	counters["evaluations"]++
	counters["transitions"]++
	var detail string
	pv, st := rt.Try(func() {
		switch kind {
		case "unit":
			u, err := parse.Unit(strings.NewReader(input))
			if err != nil {
				return
			}
			counters["units_parsed"]++
			pi, err := analysis.AnalyzeAndCheckBounds([]parse.SourceUnit{u}, nil, analysis.ErrorForBoundsMismatch)
			counters["transitions"]++
			if err != nil {
				return
			}
			counters["units_analysed"]++
			store := factstore.NewSimpleInMemoryStore()
			_ = engine.EvalProgram(pi, store, engine.WithCreatedFactLimit(100), engine.WithEvaluationTime(mg.EvalTime), engine.WithTemporalStore(factstore.NewTemporalStore()))
			counters["transitions"]++
			counters["units_evaluated"]++
		case "clause":
			parse.Clause(input)
		case "term":
			parse.Term(input)
		case "baseterm":
			parse.BaseTerm(input)
		case "atom":
			parse.Atom(input)
		case "lof":
			parse.LiteralOrFormula(input)
		case "predname":
			parse.PredicateName(input)
		case "unescape":
			ast.Unescape(input, false)
		case "unescape-bytes":
			ast.Unescape(input, true)
		case "sc-readinto":
			(factstore.SimpleColumn{}).ReadInto(strings.NewReader(input), factstore.NewSimpleInMemoryStore())
		case "sc-lazy":
			s, err := factstore.NewSimpleColumnStoreFromBytes([]byte(input))
			if err == nil {
				for _, p := range s.ListPredicates() {
					s.GetFacts(ast.NewQuery(p), func(ast.Atom) error { return nil })
				}
				s.EstimateFactCount()
			}
		case "sc-gzip":
			s, err := factstore.NewSimpleColumnStoreFromGzipBytes([]byte(input))
			if err == nil {
				for _, p := range s.ListPredicates() {
					s.GetFacts(ast.NewQuery(p), func(ast.Atom) error { return nil })
				}
			}
		case "sc-zstd":
			s, err := factstore.NewSimpleColumnStoreFromZstdBytes([]byte(input))
			if err == nil {
				for _, p := range s.ListPredicates() {
					s.GetFacts(ast.NewQuery(p), func(ast.Atom) error { return nil })
				}
			}
		}
	})
	counters["traces_validated_against_impl"]++
	if pv != nil {
		where := rt.ShortStack(st)
		detail = fmt.Sprintf("%s(%q) panicked: %v at %s", kind, clip(input, 200), pv, where)
		site := where
		if i := strings.Index(site, " | "); i > 0 {
			site = site[:i]
		}
		if i := strings.Index(site, " @ "); i > 0 {
			site = site[:i]
		}
		return &rt.Violation{Kind: "panic-" + kind, Detail: detail, Witness: map[string]any{"entry": kind, "input": input, "site": site}}
	}
	return nil
}

func clip(s string, n int) string {
	if len(s) > n {
		return s[:n] + "…"
	}
	return s
}

func c10Corpus() map[string]string {
	out := map[string]string{}
	files, _ := filepath.Glob(repoDir() + "/examples/*.mg")
	sort.Strings(files)
	for _, f := range files {
		b, err := os.ReadFile(f)
		if err == nil {
			out[filepath.Base(f)] = string(b)
		}
	}
	out["inline-1"] = "Decl e(X,Y) bound [/number, /number].\ne(1,2). e(2,3).\np(X,Y) :- e(X,Y).\np(X,Z) :- e(X,Y), p(Y,Z).\nc(N) :- p(X,_) |> do fn:group_by(), let N = fn:count().\n"
	out["inline-2"] = "a(1)@[2024-01-01, 2024-01-05].\nb(X)@[S,E] :- a(X)@[S,E].\nc(X) :- <-[0s, 7d] a(X).\nd(X) :- a(X)@[T], !b(X)@[T].\n"
	out["inline-3"] = "Package foo!\nUse bar!\nDecl q(X) descr [doc(\"x\")] bound [ fn:List(/string) ].\nq([\"a\", 'b', `c`]).\nr(X) :- q(L), :list:member(X, L), X != \"a\".\ns({/a: 1, /b: [1,2]}, [1: 2]).\n"
	return out
}

func c10Tokenize(src string) [][2]int {
	var spans [][2]int
	rt.Try(func() {
		lexer := pgen.NewMangleLexer(antlr.NewInputStream(src))
		lexer.RemoveErrorListeners()
		for {
			t := lexer.NextToken()
			if t.GetTokenType() == antlr.TokenEOF {
				break
			}
			// antlr positions are rune offsets; convert lazily below
			spans = append(spans, [2]int{t.GetStart(), t.GetStop() + 1})
		}
	})
	// convert rune offsets to byte offsets
	runeToByte := make([]int, 0, len(src)+1)
	for i := range src {
		runeToByte = append(runeToByte, i)
	}
	runeToByte = append(runeToByte, len(src))
	var out [][2]int
	for _, s := range spans {
		if s[0] >= 0 && s[1] < len(runeToByte) && s[0] <= s[1] {
			out = append(out, [2]int{runeToByte[s[0]], runeToByte[s[1]]})
		}
	}
	return out
}

func c10ScFiles() map[string]string {
	mk := func(facts ...string) string {
		st := factstore.NewMultiIndexedArrayInMemoryStore()
		for _, a := range evalGround(facts) {
			st.Add(a)
		}
		var b bytes.Buffer
		(factstore.SimpleColumn{Deterministic: true}).WriteTo(st, &b)
		return b.String()
	}
	return map[string]string{
		"sc-1": mk("p(1)", "p(2)", "q(1,2)"),
		"sc-2": mk("z()", "p(\"a\")", "p(/n/x)", "q([1,2], fn:pair(1,2))"),
		"sc-3": mk("r(1,2,3)", "r(4,5,6)", "y()", "e(1.5)"),
		"sc-4": "2\nz 0 0\np 1 1\n5\n",
		"sc-5": mk("p(1)"),
		"sc-6": mk("m([1: 2])", "m({/a: 1})", "t(\"x\\ny\")"),
	}
}

func c10Jobs(thorough bool) []c10Job {
	var jobs []c10Job
	// (a) token strings
	entry := []string{"unit", "clause", "term", "lof", "predname", "atom", "baseterm"}
	addTokenJobs := func(alpha []string, k int, tag string) {
		for _, a := range alpha {
			a := a
			jobs = append(jobs, c10Job{fmt.Sprintf("tokens-%s k<=%d first=%q", tag, k, a), func(probe func(kind, input string)) {
				var rec func(cur []string)
				rec = func(cur []string) {
					s := strings.Join(cur, " ")
					es := entry
					if !thorough && len(cur) == k && k >= 4 {
						es = entry[:3] // quick: the longest strings go to Unit, Clause and Term only
					}
					for _, e := range es {
						probe(e, s)
					}
					// also glued without spaces for the first pair (lexer adjacency)
					if len(cur) == 2 {
						for _, e := range entry[:3] {
							probe(e, cur[0]+cur[1])
						}
					}
					if len(cur) == k {
						return
					}
					for _, t := range alpha {
						rec(append(cur, t))
					}
				}
				rec([]string{a})
			}})
		}
	}
	if thorough {
		addTokenJobs(c10Tokens, 4, "full")
		addTokenJobs(c10TokensSmall, 5, "small")
	} else {
		addTokenJobs(c10Tokens, 3, "full")
		addTokenJobs(c10TokensSmall, 4, "small")
	}
	// (b) single-edit neighbours of the corpus
	corpus := c10Corpus()
	var names []string
	for n := range corpus {
		names = append(names, n)
	}
	sort.Strings(names)
	replTokens := c10TokensSmall
	if thorough {
		replTokens = c10Tokens
	}
	subBytes := []byte{'"', '\\', '(', ')', '[', '.', ':', '@', '<', '0', '\n', 0x80}
	for _, n := range names {
		src := corpus[n]
		n := n
		if !thorough && len(src) > 3000 {
			continue // quick: the one large example (flow_checking.mg) is left to the thorough tier
		}
		jobs = append(jobs, c10Job{"corpus-" + n + " intact+truncations", func(probe func(kind, input string)) {
			probe("unit", src)
			step := 1
			if !thorough && len(src) > 3000 {
				step = 3
			}
			for i := 0; i < len(src); i += step {
				probe("unit", src[:i])
			}
		}})
		spans := c10Tokenize(src)
		jobs = append(jobs, c10Job{"corpus-" + n + " token delete/duplicate", func(probe func(kind, input string)) {
			for _, sp := range spans {
				probe("unit", src[:sp[0]]+src[sp[1]:])
				probe("unit", src[:sp[1]]+" "+src[sp[0]:sp[1]]+src[sp[1]:])
			}
		}})
		for ti, t := range replTokens {
			t := t
			if !thorough && len(src) > 3000 && ti%3 != 0 {
				continue
			}
			jobs = append(jobs, c10Job{fmt.Sprintf("corpus-%s token replaced by %q", n, t), func(probe func(kind, input string)) {
				for _, sp := range spans {
					probe("unit", src[:sp[0]]+t+src[sp[1]:])
				}
			}})
		}
		for _, b := range subBytes {
			b := b
			if !thorough && len(src) > 3000 {
				continue
			}
			jobs = append(jobs, c10Job{fmt.Sprintf("corpus-%s byte substituted by 0x%02x", n, b), func(probe func(kind, input string)) {
				for i := 0; i < len(src); i++ {
					probe("unit", src[:i]+string([]byte{b})+src[i+1:])
				}
			}})
		}
	}
	// (c) escape decoder
	// (e) declaration grid: every combination of arity, descriptor items (with argument counts that do and
	// do not fit the arity), and bound rows of matching and non-matching length, followed by a fact and a rule
	{
		descr := []string{``, `doc("x")`, `arg(X, "d")`, `arg(Q, "d")`, `fundep([X], [Y])`, `fundep([], [X])`, `merge([Y], "m")`, `merge([X], "p")`, `deferred()`, `external()`,
			`extensional()`, `reflects(/a)`, `reflects(1)`, `temporal()`, `private()`, `synthetic()`, `name("n")`, `desugared()`, `foo()`, `mode(1)`, `mode(X)`, `mode()`, `mode("x")`,
			`mode("+")`, `mode("-")`, `mode("?")`, `mode("+", "+")`, `mode("+", "-")`, `mode("-", "+")`, `mode("-", "-")`, `mode("?", "+")`, `mode("+", "+", "-")`, `mode("+", "+", "+", "+")`}
		bounds := []string{``, `bound []`, `bound [/number]`, `bound [/number, /string]`, `bound [/number, /string, /any]`, `bound [/number] bound [/string, /string]`, `bound [/number, /number] bound [/string]`,
			`bound [fn:List(/number)]`, `bound [X]`, `bound [1]`, `bound [fn:foo(/number)]`, `inclusion [q(X)]`, `bound [/number] inclusion [q(X), q(Y)]`}
		argLists := []string{"", "X", "X, Y", "X, Y, Z"}
		factArgs := []string{"", "1", "1, \"s\"", "1, \"s\", /a"}
		for ai := range argLists {
			ai := ai
			jobs = append(jobs, c10Job{fmt.Sprintf("declaration-grid arity %d", ai), func(probe func(kind, input string)) {
				for i, d1 := range descr {
					for j, d2 := range descr {
						if j != 0 && j <= i {
							continue
						}
						items := d1
						if d2 != "" {
							if items != "" {
								items += ", "
							}
							items += d2
						}
						for _, b := range bounds {
							for _, tail := range []string{"", "p(" + factArgs[ai] + ").\n", "p(" + factArgs[ai] + ").\nq(1).\nr(" + argLists[ai] + ") :- p(" + argLists[ai] + ").\n", "q(1).\np(" + argLists[ai] + ") :- q(X), q(Y), q(Z).\n"} {
								src := "Decl p(" + argLists[ai] + ")"
								if items != "" || (i+j)%2 == 0 {
									src += " descr [" + items + "]"
								}
								src += " " + b + ".\n" + tail
								probe("unit", src)
							}
						}
					}
				}
			}})
		}
	}
	// (f) built-in grid: every built-in function with 0..4 arguments in a rule head, a body equality, a let and a
	// reducer position; every built-in predicate with 0..4 arguments, plain and negated, over bound variables, an unbound
	// variable, constants and structured constants; all under bounds checking and evaluation
	{
		var fnSyms, predSyms []string
		seenF := map[string]bool{}
		for f := range builtin.Functions {
			seenF[f.Symbol] = true
		}
		for f := range builtin.ReducerFunctions {
			seenF[f.Symbol] = true
		}
		for f := range seenF {
			fnSyms = append(fnSyms, f)
		}
		sort.Strings(fnSyms)
		seenP := map[string]bool{}
		for q := range builtin.Predicates {
			seenP[q.Symbol] = true
		}
		for q := range seenP {
			predSyms = append(predSyms, q)
		}
		sort.Strings(predSyms)
		decls := []string{"", "Decl bar(X) bound [/any].\n", "Decl bar(S) bound [.Struct</a: /number>].\nDecl foo(Y) bound [/any].\n", "Decl bar(S) bound [fn:List(/number)].\n"}
		facts := []string{"bar(1).", "bar({/a: 1}).", "bar([1, 2]).", "bar(\"s\").", "bar(/a)."}
		argPool := []string{"X", "1", "/a", "K", "\"s\"", "[X]", "_", "/number"}
		for _, fsym := range fnSyms {
			fsym := fsym
			jobs = append(jobs, c10Job{"builtin-grid function " + fsym, func(probe func(kind, input string)) {
				var argLists []string
				var rec func(cur []string)
				rec = func(cur []string) {
					argLists = append(argLists, strings.Join(cur, ", "))
					if len(cur) == 3 {
						return
					}
					for _, a := range argPool[:5] {
						rec(append(append([]string{}, cur...), a))
					}
				}
				rec(nil)
				argLists = append(argLists, "X, 1, 2, 3", "X, X, X, X, X")
				for di, d := range decls {
					for fi, f := range facts {
						if (di+fi)%2 == 1 && !thorough {
							continue
						}
						for _, al := range argLists {
							app := fsym + "(" + al + ")"
							pre := d + f + "\nk(/a).\n"
							probe("unit", pre+"foo("+app+") :- bar(X), k(K).\n")
							probe("unit", pre+"foo(Y) :- bar(X), k(K), Y = "+app+".\n")
							probe("unit", pre+"foo(Y) :- bar(X), k(K) |> let Y = "+app+".\n")
							probe("unit", pre+"foo(Y) :- bar(X), k(K) |> do fn:group_by(K), let Y = "+app+".\n")
						}
					}
				}
			}})
		}
		for _, psym := range predSyms {
			psym := psym
			jobs = append(jobs, c10Job{"builtin-grid predicate " + psym, func(probe func(kind, input string)) {
				var argLists []string
				var rec func(cur []string)
				rec = func(cur []string) {
					argLists = append(argLists, strings.Join(cur, ", "))
					if len(cur) == 3 {
						return
					}
					for _, a := range argPool {
						rec(append(append([]string{}, cur...), a))
					}
				}
				rec(nil)
				for _, d := range decls {
					for _, f := range facts {
						for _, al := range argLists {
							at := psym + "(" + al + ")"
							pre := d + f + "\nk(/a).\n"
							probe("unit", pre+"foo(X) :- bar(X), k(K), "+at+".\n")
							probe("unit", pre+"foo(X) :- bar(X), k(K), !"+at+".\n")
						}
					}
				}
			}})
		}
	}
	// (g) type-expression grid: every type constructor with 0..3 arguments from a pool that includes constructors
	// in the wrong place (fn:opt outside a struct, a number, a variable), as the bound of a declared predicate with a fact
	{
		ctors := []string{"fn:List", "fn:Pair", "fn:Map", "fn:Struct", "fn:Tuple", "fn:Union", "fn:Option", "fn:Singleton", "fn:opt", "fn:Fun", "fn:TaggedUnion", "fn:Nope"}
		targs := []string{"/number", "/a", "fn:opt(/a)", "fn:opt(/a, /number)", "fn:List(/number)", "1", "X", "fn:Struct()", "\"s\""}
		vals := []string{"1", "{/a: 1}", "[1]", "fn:pair(1, 2)", "[/a: 1]", "/a"}
		for _, ct := range ctors {
			ct := ct
			jobs = append(jobs, c10Job{"type-grid " + ct, func(probe func(kind, input string)) {
				var argLists []string
				var rec func(cur []string)
				rec = func(cur []string) {
					argLists = append(argLists, strings.Join(cur, ", "))
					if len(cur) == 3 {
						return
					}
					for _, a := range targs {
						rec(append(append([]string{}, cur...), a))
					}
				}
				rec(nil)
				for _, al := range argLists {
					for vi, v := range vals {
						t := ct + "(" + al + ")"
						probe("unit", "Decl foo(X) bound ["+t+"].\nfoo("+v+").\n")
						if vi == 0 {
							probe("unit", "Decl foo(X) bound [fn:List("+t+")].\nDecl bar(X) bound ["+t+"].\nbar(X) :- foo(L), :list:member(X, L).\n")
							probe("unit", "Decl foo(X) bound ["+t+"].\nDecl bar(X) bound [/any].\nfoo("+v+").\nbar(X) :- foo(X).\n")
						}
					}
				}
			}})
		}
	}
	// (g2) long argument lists (4..6) for the variadic type constructors, over a pool that makes the first arguments
	// well-formed so that checks of later positions are reached (tagged unions pair tags with struct types)
	{
		pool := []string{"/a", "/b", "fn:Struct()", "fn:Struct(/x, /number)", "/number"}
		for _, ct := range []string{"fn:TaggedUnion", "fn:Struct", "fn:Union", "fn:Tuple", "fn:Fun", "fn:Map", ".TaggedUnion", ".Struct"} {
			ct := ct
			jobs = append(jobs, c10Job{"type-grid long " + ct, func(probe func(kind, input string)) {
				var rec func(cur []string)
				rec = func(cur []string) {
					if len(cur) >= 4 {
						t := ct + "(" + strings.Join(cur, ", ") + ")"
						if strings.HasPrefix(ct, ".") {
							// the angle-bracket syntax: key : type pairs after an optional leading tag field
							t = ct + "<" + strings.Join(cur, ", ") + ">"
						}
						probe("unit", "Decl foo(X) bound ["+t+"].\nfoo({/a: /b}).\n")
						probe("unit", "Decl foo(X) bound [fn:List("+t+"), /number].\nDecl bar(X) bound [/any].\nbar(X) :- foo(X).\n")
					}
					if len(cur) == 6 || (len(cur) == 5 && !thorough) {
						return
					}
					for _, a := range pool {
						rec(append(append([]string{}, cur...), a))
					}
				}
				rec(nil)
			}})
		}
	}
	// (g3) pairs of types: two declared predicates joined on one variable (the meet of their bounds is computed), a
	// rule copying from one to the other (conformance is judged) and a union of both in one bound
	{
		var types []string
		for _, ct := range []string{"fn:List", "fn:Pair", "fn:Map", "fn:Struct", "fn:Tuple", "fn:Union", "fn:Option", "fn:Fun", "fn:TaggedUnion", "fn:Singleton", "fn:Rel"} {
			for _, al := range []string{"", "/number", "/a", "/number, /string", "/a, /number", "/number, /string, /string", "/a, /number, /b", "/a, /b, fn:Struct()", "/a, /b, fn:Struct(), /c, fn:Struct(/x, /number)", "/a, fn:List(/number)", "fn:Union(/number, /string, /a), fn:Union(/number, /string)"} {
				types = append(types, ct+"("+al+")")
			}
		}
		types = append(types, "/number", "/a", "/any", "/name", "/string")
		for i := range types {
			i := i
			jobs = append(jobs, c10Job{"type-pair grid " + types[i], func(probe func(kind, input string)) {
				for j := range types {
					t1, t2 := types[i], types[j]
					probe("unit", "Decl p(X) bound ["+t1+"].\nDecl q(X) bound ["+t2+"].\nDecl r(X) bound [/any].\nr(X) :- p(X), q(X).\n")
					probe("unit", "Decl p(X) bound ["+t1+"].\nDecl q(X) bound ["+t2+"].\nq(X) :- p(X).\n")
					if j >= i {
						probe("unit", "Decl p(X) bound [fn:Union("+t1+", "+t2+")].\nDecl q(X) bound ["+t1+"] bound ["+t2+"].\nq(X) :- p(X).\np(X) :- q(X).\n")
					}
				}
			}})
		}
	}
	// (d) deferred predicates evaluated top-down: linear / left / double recursion x data without and with cycles x
	// callers with a bound and an unbound input; evaluation under the fact limit must return
	jobs = append(jobs, c10Job{"deferred-predicate grid", func(probe func(kind, input string)) {
		decl := "Decl foo(X, Y) descr [deferred(), mode(\"+\", \"-\")].\n"
		rules := []string{
			"foo(X, Y) :- bar(X, Y).\nfoo(X, Y) :- bar(X, Z), foo(Z, Y).\n",
			"foo(X, Y) :- bar(X, Z), foo(Z, Y).\n",
			"foo(X, Y) :- bar(X, Y).\nfoo(X, Y) :- foo(X, Z), bar(Z, Y).\n",
			"foo(X, Y) :- bar(X, Y).\nfoo(X, Y) :- bar(X, Z), foo(Z, W), foo(W, Y).\n",
			"foo(X, Y) :- bar(X, Y), !bar(Y, X).\nfoo(X, Y) :- bar(X, Z), foo(Z, Y), Y != X.\n",
		}
		data := []string{"bar(1, 2). bar(2, 3).", "bar(1, 1).", "bar(1, 2). bar(2, 1).", "bar(1, 2). bar(2, 3). bar(3, 1). bar(3, 4).", ""}
		callers := []string{"baz(Y) :- bar(A, _), foo(A, Y).", "baz(Y) :- foo(1, Y).", "baz(A) :- bar(A, _), foo(A, A).", "baz(Y) :- bar(A, B), foo(A, Y), foo(B, Y)."}
		for _, ru := range rules {
			for _, d := range data {
				for _, c := range callers {
					probe("unit", decl+d+"\n"+ru+c+"\n")
				}
			}
		}
	}})
	// (t) transform grid: every do / let chain over variables that the body binds (X), that only the head mentions (Y),
	// that nothing mentions (Z), as group-by keys, as reducer arguments and as the variable a statement defines
	jobs = append(jobs, c10Job{"transform grid", func(probe func(kind, input string)) {
		keys := []string{"", "X", "Y", "Z", "X, Y", "X, Z", "X, X", "fn:list(X)", "fn:plus(X, 1)", "fn:pair(X, X), Y", "fn:list(X), fn:list(Y)", "/a", "1"}
		defs := []string{"X", "Y", "Z", "C"}
		reds := []string{"fn:count()", "fn:sum(X)", "fn:sum(Y)", "fn:sum(Z)", "fn:collect(X, Z)", "fn:max(C)"}
		heads := []string{"foo(X)", "foo(Y)", "foo(X, C)", "foo(Y, C)", "foo(Z)", "foo(C)"}
		bodies := []string{"bar(X)", "bar(W)", "bar(X), baz(X, Y)"}
		for _, h := range heads {
			for _, b := range bodies {
				for _, k := range keys {
					for _, d := range defs {
						for _, rd := range reds {
							pre := "bar(1). bar(2). baz(1, 5). baz(2, 5).\n"
							probe("unit", pre+h+" :- "+b+" |> do fn:group_by("+k+"), let "+d+" = "+rd+".\n")
							probe("unit", pre+h+" :- "+b+" |> let "+d+" = "+strings.Replace(strings.Replace(rd, "fn:count()", "fn:plus(X, 1)", 1), "fn:sum", "fn:list", 1)+".\n")
							for _, d2 := range defs {
								probe("unit", pre+h+" :- "+b+" |> do fn:group_by("+k+"), let "+d+" = "+rd+", let "+d2+" = fn:count().\n")
							}
						}
					}
				}
			}
		}
	}})
	// (f2) built-in functions applied to composite literals whose elements have different types (the type of such
	// a literal is a union; type inference unifies unions of different widths)
	{
		var fnSyms []string
		seen := map[string]bool{}
		for f := range builtin.Functions {
			seen[f.Symbol] = true
		}
		for f := range builtin.ReducerFunctions {
			seen[f.Symbol] = true
		}
		for f := range seen {
			fnSyms = append(fnSyms, f)
		}
		sort.Strings(fnSyms)
		lits := []string{"[1, 2.5, \"a\"]", "[1, \"a\"]", "[]", "[[1], [\"a\", 2.5, /a]]", "{/a: 1, /b: \"s\"}", "[1: \"a\", \"b\": 2]", "fn:pair(1, \"a\")", "2.5", "X", "[X, 2.5, /a]"}
		for _, fsym := range fnSyms {
			fsym := fsym
			jobs = append(jobs, c10Job{"builtin-grid mixed literals " + fsym, func(probe func(kind, input string)) {
				var argLists []string
				for _, a := range lits {
					argLists = append(argLists, a)
					for _, b := range lits {
						argLists = append(argLists, a+", "+b)
					}
				}
				for _, al := range argLists {
					app := fsym + "(" + al + ")"
					probe("unit", "foo(Y) :- Y = "+app+".\n")
					probe("unit", "bar(1).\nbar(\"s\").\nfoo(Y) :- bar(X), Y = "+app+".\n")
					probe("unit", "Decl bar(X) bound [/number].\nbar(1).\nfoo(Y) :- bar(X) |> let Y = "+app+".\n")
				}
			}})
		}
	}
	// (i) merge-predicate grid: a predicate with a functional dependency and a merge descriptor over every choice of
	// source, target and merged columns, a deferred merge predicate of arity 3 or 5, and rules that derive facts agreeing
	// on the source columns
	jobs = append(jobs, c10Job{"merge-predicate grid", func(probe func(kind, input string)) {
		cols := []string{"[]", "[X]", "[P]", "[Q]", "[P, Q]", "[X, P]", "[X, P, Q]", "[Z]"}
		mdecls := []string{
			"Decl m(A, B, C) descr [mode(\"+\", \"+\", \"-\"), deferred()].\nm(A, B, C) :- A < B, C = A.\nm(A, B, C) :- B <= A, C = B.\n",
			"Decl m(A, B, C, D, E) descr [mode(\"+\", \"+\", \"+\", \"+\", \"-\"), deferred()].\nm(A, B, C, D, E) :- A < B, E = A.\n",
			"Decl m(A, B, C) descr [mode(\"+\", \"+\", \"-\")].\nm(1, 2, 1).\n",
			"",
		}
		for _, src := range cols {
			for _, tgt := range cols {
				for _, mrg := range cols {
					for _, md := range mdecls {
						unit := "Decl sp(X, P, Q) descr [fundep(" + src + ", " + tgt + "), merge(" + mrg + ", \"m\")].\n" + md + "n(1). n(2). n(3).\nsp(1, X, Y) :- n(X), n(Y).\nsp(X, X, 2) :- n(X).\n"
						probe("unit", unit)
						probe("unit", strings.Replace(unit, "fundep("+src+", "+tgt+"), ", "", 1))
					}
				}
			}
		}
	}})
	// (h) extreme literals: numbers, floats, durations and timestamps at and beyond what their types can hold, in every
	// literal position of a few templates
	jobs = append(jobs, c10Job{"extreme literals", func(probe func(kind, input string)) {
		lits := []string{"9223372036854775807", "9223372036854775808", "-9223372036854775808", "-9223372036854775809", "99999999999999999999999999", "1e308", "1e309", "-1e309", "1.7976931348623157e308", "4.9e-324", "1e-999",
			"0.00000000000000000000000000000000000000000000000000000000001", "9999999h", "2562047h", "2562048h", "153722868m", "9223372037s", "9223372036855ms", "106751991167d", "99999999999999999999d", "0d", "00000000001s",
			"9999-12-31", "0000-01-01", "2024-13-01", "2024-02-30", "2024-01-01T25:00:00", "2024-01-01T00:00:00.9999999999999", "9999-99-99T99:99:99Z"}
		for _, l := range lits {
			for _, tpl := range []string{"foo(%s).", "foo(1)@[%s].", "foo(1)@[%s, %s].", "foo(1)@[_, %s].", "bar(X) :- <-[0s, %s] foo(X).", "bar(X) :- [-[%s, %s] foo(X).", "bar(X) :- <+[%s, 1s] foo(X).", "bar(X)@[%s] :- foo(X).",
				"bar(X) :- foo(X)@[%s, _].", "bar(X) :- foo(X), X < %s.", "bar(Y) :- foo(X), Y = fn:plus(X, %s).", "Decl foo(X) bound [fn:Singleton(%s)]."} {
				src := strings.ReplaceAll(tpl, "%s", l)
				for _, e := range []string{"unit", "clause", "lof", "term"} {
					probe(e, src)
				}
				probe("unit", "Decl foo(X) temporal bound [/number].\n"+src+"\n")
			}
		}
	}})
	jobs = append(jobs, c10Job{"escape decoder strings <=4 over 10 characters", func(probe func(kind, input string)) {
		alpha := []string{"\\", "x", "u", "{", "}", "0", "f", "g", "\"", "\n"}
		var rec func(cur string, n int)
		rec = func(cur string, n int) {
			probe("unescape", cur)
			probe("unescape-bytes", cur)
			if n == 4 {
				return
			}
			for _, a := range alpha {
				rec(cur+a, n+1)
			}
		}
		rec("", 0)
		for _, s := range []string{"\\u{12", "\\u{1234567", "\\u{110000}", "\\u{d800}", "\\x8", "\\u{12345678}", "\\u{}"} {
			probe("unescape", s)
			probe("unescape-bytes", s)
			probe("baseterm", "\""+s+"\"")
		}
	}})
	// (d) fact files
	sc := c10ScFiles()
	var scNames []string
	for n := range sc {
		scNames = append(scNames, n)
	}
	sort.Strings(scNames)
	for _, n := range scNames {
		file := sc[n]
		n := n
		jobs = append(jobs, c10Job{"factfile-" + n, func(probe func(kind, input string)) {
			both := func(s string) { probe("sc-readinto", s); probe("sc-lazy", s) }
			both(file)
			lines := strings.Split(strings.TrimSuffix(file, "\n"), "\n")
			for i := range lines {
				del := append(append([]string{}, lines[:i]...), lines[i+1:]...)
				both(strings.Join(del, "\n") + "\n")
				dup := append(append(append([]string{}, lines[:i+1]...), lines[i]), lines[i+1:]...)
				both(strings.Join(dup, "\n") + "\n")
				blank := append([]string{}, lines...)
				blank[i] = ""
				both(strings.Join(blank, "\n") + "\n")
				for _, repl := range []string{"-1", "0", "1", "2", "9", "x", "/", "\"", "p 1", "p -1 1", "p 1 -1", "p 2000 1", "p 1 9999"} {
					r2 := append([]string{}, lines...)
					r2[i] = repl
					both(strings.Join(r2, "\n") + "\n")
				}
				// digits of header lines replaced
				for j := 0; j < len(lines[i]); j++ {
					if lines[i][j] >= '0' && lines[i][j] <= '9' {
						for _, d := range []string{"-1", "0", "1", "2", "9"} {
							r2 := append([]string{}, lines...)
							r2[i] = lines[i][:j] + d + lines[i][j+1:]
							both(strings.Join(r2, "\n") + "\n")
						}
					}
				}
			}
			for i := 0; i <= len(file); i++ {
				both(file[:i])
			}
			// compressed forms truncated at every offset
			var gz bytes.Buffer
			w := gzip.NewWriter(&gz)
			w.Write([]byte(file))
			w.Close()
			for i := 0; i <= gz.Len(); i++ {
				probe("sc-gzip", string(gz.Bytes()[:i]))
			}
			var zs bytes.Buffer
			zw, _ := zstd.NewWriter(&zs)
			zw.Write([]byte(file))
			zw.Close()
			for i := 0; i <= zs.Len(); i++ {
				probe("sc-zstd", string(zs.Bytes()[:i]))
			}
		}})
	}
	return jobs
}

func c10Worker(tier string, shard, of, from int) {
	jobs := c10Jobs(tier == "thorough")
	// watchdog: a single input that takes > 30 s is reported on stderr and the worker exits (the parent re-runs and then records it)
	go func() {
		last := ""
		since := time.Now()
		for {
			time.Sleep(2 * time.Second)
			cur, _ := c10Current.Load().(string)
			if cur != last {
				last, since = cur, time.Now()
				continue
			}
			limit := 10 * time.Second
			if os.Getenv("VERIF_CONFIRM_RUN") != "" {
				limit = 60 * time.Second // the job is re-run alone to confirm: rule out starvation on a loaded machine
			}
			if cur != "" && time.Since(since) > limit {
				fmt.Fprintf(os.Stderr, "STUCK INPUT %q\n", clip(cur, 2000))
				os.Exit(3)
			}
		}
	}()
	rt.WorkerMain(shard, of, from, len(jobs),
		func(i int) string { return jobs[i].label },
		func(i int) rt.CaseResult {
			res := rt.CaseResult{Counters: map[string]int64{"states": 1}}
			seenSite := map[string]bool{}
			jobs[i].run(func(kind, input string) {
				if v := c10Probe(kind, input, res.Counters); v != nil {
					site := fmt.Sprint(v.Witness["site"])
					if !seenSite[kind+site] && len(res.Violations) < 20 {
						seenSite[kind+site] = true
						res.Violations = append(res.Violations, *v)
					}
					res.Counters["panics"]++
				}
			})
			c10Current.Store("")
			res.Counters["distinct_nontrivial"] = res.Counters["units_parsed"]
			res.Outcome = fmt.Sprintf("%s parsed=%d analysed=%d", jobs[i].label, res.Counters["units_parsed"], res.Counters["units_analysed"])
			if i%97 == 0 {
				res.Sample = map[string]any{"job": jobs[i].label, "inputs": res.Counters["evaluations"]}
			}
			return res
		})
}

func c10(r *rt.Run) {
	r.Assumptions = []string{
		"decides the property for all token strings up to the length bound and all inputs within edit distance 1 (token or byte) of a corpus; long adversarial inputs are outside the bound (this is not coverage-guided fuzzing)",
		"header counts in fact files are kept <= 10^4: a count near 2^32 makes readPred allocate that many rows (noted by reading, not executed in the sandbox)",
		"workers run under ulimit -v with a 10 s per-input watchdog (normal time per input < 5 ms) and a 300 s per-job deadline; a job that does not answer is re-run once more, alone and with six times the time, before it is believed",
	}
	if r.Replay != "" {
		_, w := rt.ReadReplay(r.Replay)
		counters := map[string]int64{}
		if v := c10Probe(fmt.Sprint(w["entry"]), fmt.Sprint(w["input"]), counters); v != nil {
			r.Violate(v.Kind, v.Detail, v.Witness)
		}
		r.Finish("replay")
	}
	jobs := c10Jobs(r.Thorough())
	r.Extra["jobs"] = len(jobs)
	rt.ConfirmRuns = 1
	rt.RunSharded(r, len(jobs), []string{"C10", "worker", r.Tier}, 300*time.Second, 8000000, func(idx int, label, how string) {
		input := ""
		if i := strings.Index(how, "STUCK INPUT "); i >= 0 {
			if s, err := strconv.Unquote(strings.TrimSpace(strings.TrimSuffix(how[i+len("STUCK INPUT "):], "…\""))); err == nil {
				input = s
			} else {
				input = how[i:]
			}
		}
		kind := "did-not-return"
		if strings.Contains(input, "merge(") {
			kind = "did-not-return-merge-predicate"
		}
		r.Violate(kind, fmt.Sprintf("job %q: an input did not return within the watchdog time: %s", label, clip(input, 300)), map[string]any{"job": label, "input": input})
	})
	r.Extra["states"] = r.Get("evaluations")
	r.Finish("(a) every token string of length <= k over a 49-token alphabet (k=3 quick, 4 thorough) and k+1 over a 29-token alphabet, offered to Unit/Clause/Term/LiteralOrFormula/PredicateName/Atom/BaseTerm; " +
		"(b) every single-token deletion/duplication/replacement, every truncation and byte substitution of 19 valid sources (examples/*.mg + 3 inline; the quick tier leaves out the 9 KB flow_checking.mg); (c) every string <= 4 over 10 characters through ast.Unescape; (f) a built-in grid: every built-in function with every argument list of length <=3 over 5 argument forms in head / equality / let / reducer position and every built-in predicate with every argument list of length <=3 over 7 forms, plain and negated, x declarations x facts; (g) a type-expression grid: 12 constructors x every argument list of length <=3 over 9 forms x 6 values; (g2) 8 variadic constructors x every argument list of length 4-5 (thorough 6) over 5 forms; (g3) every ordered pair of 115 type expressions as the bounds of two predicates that a rule joins, copies and unites; (f2) every built-in function over 1-2 composite literals with mixed element types; (d) a deferred-predicate grid: 5 recursion shapes x 5 data sets with and without cycles x 4 callers, evaluated top-down under the fact limit; (t) a transform grid: do / let chains whose keys, reducer arguments and defined variables range over variables the body binds, only the head mentions, nothing mentions (6 heads x 3 bodies x 7 keys x 4 x 6); (h) extreme literals in 12 templates; (i) a merge-predicate grid (8x8x8 column choices x 4 merge-predicate declarations); (e) a declaration grid: arity 0-3 x every pair of 33 descriptor items x 13 bound/inclusion forms x 4 continuations; " +
		"(d) line deletions/duplications/blankings/replacements, digit replacements and truncations of 6 fact files, plain/gzip/zstd; units that parse go on to AnalyzeAndCheckBounds and EvalProgram under a fact limit; non-trivial = inputs that parse as a unit")
}
