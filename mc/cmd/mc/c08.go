package main

import (
	"fmt"
	"math"
	"regexp"
	"strings"
	"time"

	"codeberg.org/TauCeti/mangle-go/ast"

	"verifmc/gen"
	"verifmc/oracle"
	"verifmc/rt"
)

func init() { register("C08", c08) }

var validName = regexp.MustCompile(`^(/[A-Za-z0-9_.~%+-]+)+$`)

// printable reports whether the property's "printed form implies equality" clause applies:
// names match the lexer's rule, floats are finite.
func c08InScope(c ast.Constant) bool {
	ok := true
	var walk func(c ast.Constant)
	walk = func(c ast.Constant) {
		switch c.Type {
		case ast.NameType:
			s, _ := c.NameValue()
			if !validName.MatchString(s) {
				ok = false
			}
		case ast.Float64Type:
			f, _ := c.Float64Value()
			if math.IsNaN(f) || math.IsInf(f, 0) {
				ok = false
			}
		case ast.PairShape:
			a, b, _ := c.PairValue()
			walk(a)
			walk(b)
		case ast.ListShape:
			c.ListValues(func(e ast.Constant) error { walk(e); return nil }, func() error { return nil })
		case ast.MapShape:
			c.MapValues(func(k, v ast.Constant) error { walk(k); walk(v); return nil }, func() error { return nil })
		case ast.StructShape:
			c.StructValues(func(k, v ast.Constant) error { walk(k); walk(v); return nil }, func() error { return nil })
		}
	}
	walk(c)
	return ok
}

func c08(r *rt.Run) {
	r.Assumptions = []string{
		"structural truth = verifmc/oracle.Key computed through the public accessors (maps/structs as sets of entries)",
		"maps/structs are built through ast.Map/ast.Struct and fn:map/fn:struct only; for keys of equal hash the Go-map iteration order inside ast.Map is sampled by 24 repeated constructions (the only part that is not enumerated)",
	}
	r.SetBudget(200*time.Second, 1800*time.Second)
	U := gen.Universe(true)
	// containers that agree on their first component and differ only in a later one, over leaves whose hashes differ
	// only in the high bits (numbers 2^52..2^63 apart, a float and its negation, 0.0 and -0.0): combining hashes shifts
	// and drops high bits, so many of these containers have equal hashes — Equals must still tell them apart
	{
		one := ast.Number(1)
		ka, kx, ky := name2("/a"), name2("/x"), name2("/y")
		W := []ast.Constant{ast.Number(1), ast.Number(2), ast.Number(1 + 1<<52), ast.Number(1 + 1<<53), ast.Number(1 + 1<<54), ast.Number(1 + 1<<56), ast.Number(1 + 1<<60), ast.Number(1 + 1<<62), ast.Number(math.MinInt64 + 1),
			ast.Float64(1.5), ast.Float64(-1.5), ast.Float64(13.4), ast.Float64(-13.4), ast.Float64(0), ast.Float64(math.Copysign(0, -1)), ast.Float64(52.5),
			ast.Time(1), ast.Time(1 + 1<<54), ast.Duration(1), ast.Duration(1 + 1<<54), ast.String("a"), ast.String("b"),
			// the same integral value as a number and as a float, below and above 2^53
			ast.Number(4), ast.Float64(4), ast.Number(1 << 53), ast.Float64(1 << 53), ast.Number(1<<53 + 2), ast.Float64(1<<53 + 2), ast.Number(10000000000000000), ast.Float64(1e16), ast.Number(1 << 62), ast.Float64(1 << 62)}
		for wi, w := range W {
			w := w
			how := fmt.Sprintf("later-component leaf %d", wi)
			add := func(c ast.Constant, shape string) { U = append(U, gen.Named{C: c, How: shape + " over " + how}) }
			add(w, "leaf")
			add(*ast.Struct(map[*ast.Constant]*ast.Constant{&ka: &one, &kx: &w}), "struct {/a:1,/x:w}")
			add(*ast.Struct(map[*ast.Constant]*ast.Constant{&ka: &one, &kx: &w, &ky: &one}), "struct {/a:1,/x:w,/y:1}")
			add(*ast.Struct(map[*ast.Constant]*ast.Constant{&kx: &one, &ka: &w}), "struct {/x:1,/a:w}")
			add(*ast.Map(map[*ast.Constant]*ast.Constant{&ka: &one, &kx: &w}), "map [/a:1,/x:w]")
			add(*ast.Map(map[*ast.Constant]*ast.Constant{&one: &one, &w: &one}), "map [1:1,w:1]")
			add(ast.List([]ast.Constant{one, w}), "list [1,w]")
			add(ast.List([]ast.Constant{one, w, one}), "list [1,w,1]")
			add(ast.Pair(&one, &w), "pair(1,w)")
			inner := ast.Pair(&w, &one)
			add(ast.Pair(&one, &inner), "pair(1,pair(w,1))")
		}
	}
	n := len(U)
	keys := make([]string, n)
	strs := make([]string, n)
	hashes := make([]uint64, n)
	inScope := make([]bool, n)
	for i, u := range U {
		keys[i] = oracle.Key(u.C)
		strs[i] = u.C.String()
		hashes[i] = u.C.Hash()
		inScope[i] = c08InScope(u.C)
		r.State(keys[i])
		r.Outcome(strs[i])
	}
	r.Extra["universe_size"] = n
	for i := 0; i < n && i < 4000; i += 97 {
		r.Sample(map[string]any{"printed": strs[i], "how": U[i].How, "hash": hashes[i]})
	}
	wit := func(idx ...int) map[string]any {
		var ss []string
		for _, i := range idx {
			ss = append(ss, strs[i]+" ("+U[i].How+")")
		}
		return map[string]any{"terms": ss}
	}
	// pairs
	rt.ForRange(n, func(i int) {
		if !U[i].C.Equals(U[i].C) {
			r.Violate("not-reflexive", strs[i], wit(i))
		}
		for j := 0; j < n; j++ {
			r.Add("evaluations", 1)
			eq := U[i].C.Equals(U[j].C)
			truth := keys[i] == keys[j]
			if eq != U[j].C.Equals(U[i].C) {
				r.Violate("not-symmetric", strs[i]+" vs "+strs[j], wit(i, j))
			}
			if eq != truth {
				kind := "equals-not-structural"
				r.Violate(kind, fmt.Sprintf("Equals(%s, %s)=%v but structurally equal=%v", strs[i], strs[j], eq, truth), wit(i, j))
			}
			if eq && hashes[i] != hashes[j] {
				r.Violate("equal-but-hash-differs", strs[i]+" vs "+strs[j], wit(i, j))
			}
			if eq && strs[i] != strs[j] {
				r.Violate("equal-but-print-differs", strs[i]+" vs "+strs[j], wit(i, j))
			}
			if !eq && strs[i] == strs[j] && inScope[i] && inScope[j] {
				kind := "same-print-not-equal"
				if (U[i].C.Type == ast.Float64Type) != (U[j].C.Type == ast.Float64Type) || strings.Contains(keys[i], "F") || strings.Contains(keys[j], "F") {
					kind = "same-print-not-equal-integral-float"
				}
				r.Violate(kind, fmt.Sprintf("%s (%s) and %s (%s) print identically but are not equal", strs[i], U[i].How, strs[j], U[j].How), wit(i, j))
			}
			// atoms
			ai := ast.NewAtom("p", U[i].C)
			aj := ast.NewAtom("p", U[j].C)
			aeq := ai.Equals(aj)
			if aeq != truth {
				r.Violate("atom-equals-not-structural", ai.String()+" vs "+aj.String(), wit(i, j))
			}
			if aeq && (ai.Hash() != aj.Hash() || ai.String() != aj.String()) {
				r.Violate("atom-equal-but-hash-or-print-differs", ai.String(), wit(i, j))
			}
		}
	})
	// triples over a sub-universe: transitivity
	sub := n
	if sub > 150 {
		sub = 150
	}
	step := n / sub
	var idx []int
	for i := 0; i < n && len(idx) < sub; i += step {
		idx = append(idx, i)
	}
	rt.ForRange(len(idx), func(a int) {
		for _, b := range idx {
			if !U[idx[a]].C.Equals(U[b].C) {
				continue
			}
			for _, c := range idx {
				r.Add("evaluations", 1)
				if U[b].C.Equals(U[c].C) && !U[idx[a]].C.Equals(U[c].C) {
					r.Violate("not-transitive", "", wit(idx[a], b, c))
				}
			}
		}
	})
	// two-argument atoms over a 60-element sub-universe
	var idx2 []int
	for i := 0; i < n && len(idx2) < 60; i += n/60 + 1 {
		idx2 = append(idx2, i)
	}
	for _, i := range idx2 {
		for _, j := range idx2 {
			a := ast.NewAtom("q", U[i].C, U[j].C)
			b := ast.NewAtom("q", U[j].C, U[i].C)
			r.Add("evaluations", 1)
			truth := keys[i] == keys[j]
			if a.Equals(b) != truth {
				r.Violate("atom-equals-not-structural", a.String()+" vs "+b.String(), wit(i, j))
			}
			if c := ast.NewAtom("q2", U[i].C, U[j].C); a.Equals(c) {
				r.Violate("atom-equals-ignores-predicate", a.String()+" vs "+c.String(), wit(i, j))
			}
		}
	}
	// maps and structs from the same pairs in every argument order, and repeated ast.Map constructions
	c08Maps(r)
	r.Extra["transitions"] = r.Get("evaluations")
	r.Extra["traces_validated_against_impl"] = r.Get("evaluations")
	r.Extra["distinct_nontrivial"] = len(U)
	// the library uses printed constants as dictionary keys for group_by: groups must be the Equals-classes
	// (every ordered pair of a universe of mutually confusable constants as keys of 4 aggregating rules)
	c02KeyFamily(r)
	r.Finish("universe of constants built through the public constructors (leaves of every kind; one level of pair/list/map/struct over 14 leaves; a second level over 8 values; 9 container shapes that agree on the first component over 22 later-component leaves whose hashes differ only in the high bits); every ordered pair: Equals vs structural truth, symmetry, Equals=>Hash/String equal, String equal=>Equals (valid names, finite floats), same for atoms p(c), q(c,d); printed constants as group_by keys: groups are the Equals-classes for every ordered pair of 44 confusable constants; " +
		"triples over a 150-element sub-universe (transitivity); maps/structs from every argument order; non-trivial = every constant of the universe (distinct structural keys counted in states)")
}

func c08Maps(r *rt.Run) {
	one := ast.Number(1)
	na, _ := ast.Name("/a")
	nb, _ := ast.Name("/b")
	zero := ast.Number(0)
	keys := []ast.Constant{ast.Number(1), ast.Number(2), ast.String("a"), na, ast.List([]ast.Constant{one}), ast.Number(65792), ast.Pair(&one, &one), ast.List([]ast.Constant{one, one}),
		// compound keys of the same shape whose hashes are all equal (structures made of zeros and empty lists)
		ast.ListNil, ast.List([]ast.Constant{zero}), ast.List([]ast.Constant{zero, zero}), ast.List([]ast.Constant{ast.ListNil})}
	vals := []ast.Constant{ast.Number(7), ast.String("v")}
	skeys := []ast.Constant{na, nb, name2("/a/b"), name2("/c")}
	try := func(kind string, ks, vs []ast.Constant) {
		var firstKey, firstStr string
		var first ast.Constant
		n := 0
		build := func(order []int) ast.Constant {
			var args []ast.Constant
			for _, i := range order {
				args = append(args, ks[i], vs[i])
			}
			ctor := "fn:map"
			if kind == "struct" {
				ctor = "fn:struct"
			}
			m, err := fnApply(ctor, args...)
			if err != nil {
				panic(err)
			}
			return m
		}
		check := func(m ast.Constant, how string) {
			r.Add("evaluations", 1)
			if n == 0 {
				first, firstKey, firstStr = m, oracle.Key(m), m.String()
				n++
				return
			}
			n++
			w := map[string]any{"kind": kind, "first": firstStr, "other": m.String(), "how": how}
			collide := false
			for i := range ks {
				for j := range ks {
					if i < j && ks[i].Hash() == ks[j].Hash() {
						collide = true
					}
				}
			}
			suffix := ""
			if collide {
				suffix = "-keys-of-equal-hash"
			}
			if oracle.Key(m) != firstKey {
				r.Violate("map-content-differs"+suffix, "same pairs give different content", w)
			}
			if !m.Equals(first) || !first.Equals(m) {
				r.Violate("map-order-dependent-equality"+suffix, fmt.Sprintf("%s built from the same key-value pairs (%s) is not Equal to %s", m.String(), how, firstStr), w)
			} else if m.String() != firstStr || m.Hash() != first.Hash() {
				r.Violate("map-order-dependent-print"+suffix, m.String()+" vs "+firstStr, w)
			}
		}
		for _, p := range permutations(len(ks)) {
			check(build(p), fmt.Sprint("argument order ", p))
		}
		// direct constructor, repeated to sample Go-map iteration orders
		for rep := 0; rep < 24; rep++ {
			kv := map[*ast.Constant]*ast.Constant{}
			for i := range ks {
				kv[&ks[i]] = &vs[i]
			}
			var m ast.Constant
			if kind == "struct" {
				m = *ast.Struct(kv)
			} else {
				m = *ast.Map(kv)
			}
			check(m, "ast.Map/Struct constructor")
		}
	}
	for i := range keys {
		for j := range keys {
			if i == j {
				continue
			}
			try("map", []ast.Constant{keys[i], keys[j]}, []ast.Constant{vals[0], vals[1]})
			for k := range keys {
				if k != i && k != j && i < j && j < k {
					try("map", []ast.Constant{keys[i], keys[j], keys[k]}, []ast.Constant{vals[0], vals[1], vals[0]})
				}
			}
		}
	}
	for i := range skeys {
		for j := range skeys {
			if i < j {
				try("struct", []ast.Constant{skeys[i], skeys[j]}, []ast.Constant{vals[0], vals[1]})
				for k := range skeys {
					if j < k {
						try("struct", []ast.Constant{skeys[i], skeys[j], skeys[k]}, []ast.Constant{vals[0], vals[1], vals[1]})
					}
				}
			}
		}
	}
}

func name2(s string) ast.Constant {
	c, err := ast.Name(s)
	if err != nil {
		panic(err)
	}
	return c
}
