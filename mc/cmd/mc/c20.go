package main

import (
	"errors"
	"fmt"
	"strings"
	"time"

	"codeberg.org/TauCeti/mangle-go/ast"
	"codeberg.org/TauCeti/mangle-go/engine"
	"codeberg.org/TauCeti/mangle-go/factstore"

	"verifmc/mg"
	"verifmc/oracle"
	"verifmc/rt"
)

func init() { register("C20", c20) }

func hasTransform(cs []ast.Clause) bool {
	for _, c := range cs {
		if c.Transform != nil {
			return true
		}
	}
	return false
}

func c20(r *rt.Run) {
	r.Assumptions = []string{
		"differential oracle: engine.EvalProgramNaive vs engine.EvalProgram on equal SimpleInMemoryStore copies; reference evaluator only used to say which side is right",
		"programs without transforms (the property's quantifier); same pools and bounds as C01",
	}
	if r.Replay != "" {
		_, w := rt.ReadReplay(r.Replay)
		c20Case(r, fmt.Sprint(w["source"]), toStrings(w["edb"]))
		r.Finish("replay")
	}
	r.SetBudget(240*time.Second, 3000*time.Second)
	progs := evalPrograms(r.Thorough())
	r.Extra["programs_enumerated"] = len(progs)
	rt.ForRange(len(progs), func(i int) {
		if r.Expired("C20 program enumeration") {
			return
		}
		ps := progs[i]
		src := ps.source()
		u, err := mg.Parse(src)
		if err != nil || hasTransform(u.Clauses) {
			r.Add("programs_with_transform_skipped", 1)
			return
		}
		r.Add("programs", 1)
		for _, edbText := range ps.pool.EDBs {
			c20Case(r, src, edbText)
		}
	})
	r.Finish("every transform-free <=k-rule program of pools G,R,N,B x every pool EDB, both evaluators started from equal simple stores; " +
		"non-trivial = both accept and the common model has derived facts; distinct by construction (program,EDB)")
}

func c20Case(r *rt.Run, src string, edbText []string) {
	edb, err := mg.ParseAtoms(edbText)
	if err != nil {
		panic(err)
	}
	w := map[string]any{"source": src, "edb": edbText, "store": "simple"}
	// semi-naive
	var semi []string
	var semiErr error
	pv, st := rt.Try(func() {
		pi, err := mg.Analyze(src)
		if err != nil {
			semiErr = err
			return
		}
		store := factstore.NewSimpleInMemoryStore()
		for _, a := range edb {
			store.Add(a)
		}
		semiErr = mg.Eval(pi, store)
		semi, _, _ = mg.Canon(store)
	})
	if pv != nil {
		r.Violate("semi-naive-panic", fmt.Sprintf("%v at %s", pv, rt.ShortStack(st)), w)
		return
	}
	// naive
	var naive []string
	var naiveNonGround []string
	var naiveErr error
	pv, st = rt.Try(func() {
		u, err := mg.Parse(src)
		if err != nil {
			naiveErr = err
			return
		}
		store := factstore.NewSimpleInMemoryStore()
		for _, a := range edb {
			store.Add(a)
		}
		naiveErr = engine.EvalProgramNaive(u.Clauses, store)
		naive, _, naiveNonGround = mg.Canon(store)
	})
	if pv != nil {
		r.Violate("naive-panic", fmt.Sprintf("%v at %s", pv, rt.ShortStack(st)), w)
		return
	}
	r.Add("transitions", 2)
	if semiErr != nil || naiveErr != nil {
		r.Add("cases_not_accepted_by_both", 1)
		return
	}
	r.Add("states", 1)
	r.Add("evaluations", 1)
	r.Add("traces_validated_against_impl", 1)
	if len(semi) > len(edb) {
		r.Add("distinct_nontrivial", 1)
	}
	r.Outcome(strings.Join(semi, "|"))
	if r.SampleN() < 5 && len(semi) > len(edb)+3 {
		r.Sample(map[string]any{"source": src, "edb": edbText, "model_size": len(semi)})
	}
	if len(naiveNonGround) > 0 {
		r.Violate("naive-non-ground", "naive evaluator stored non-ground atoms: "+mg.Short(naiveNonGround), w)
		return
	}
	onlySemi, onlyNaive := mg.Diff(semi, naive)
	if len(onlySemi)+len(onlyNaive) == 0 {
		return
	}
	// say which side agrees with the reference
	side := "reference unavailable"
	u, _ := mg.Parse(src)
	if ref, rerr := oracle.Eval(u.Clauses, edb, oracle.Config{MaxRounds: 200, MaxFacts: 20000}); rerr == nil {
		want := ref.DB.Canon()
		a, b := mg.Diff(want, semi)
		c, d := mg.Diff(want, naive)
		switch {
		case len(a)+len(b) == 0:
			side = "semi-naive agrees with the reference"
		case len(c)+len(d) == 0:
			side = "naive agrees with the reference"
		default:
			side = "neither agrees with the reference"
		}
		if pairs := modelCollisions(ref.DB); pairs != nil && len(b) == 0 && len(d) == 0 {
			// both evaluators write to hash-keyed simple stores: with a colliding pair in the model the survivor depends on insertion order
			w["colliding"] = pairs
			r.Violate("missing-facts-hash-collision", fmt.Sprintf("stores differ only by facts lost to a hash collision %v", pairs), w)
			return
		}
		if len(c) > 0 && len(d) == 0 && len(a)+len(b) == 0 {
			if pairs := hashCollisionPartners(ref.DB, c); pairs != nil {
				w["colliding"] = pairs
				r.Violate("missing-facts-hash-collision", fmt.Sprintf("naive store lacks %s (hash collision %v)", mg.Short(c), pairs), w)
				return
			}
		}
	} else if !errors.Is(rerr, oracle.ErrUnsupported) {
		side = "reference: " + rerr.Error()
	}
	kind := "stores-differ"
	if strings.Contains(src, "!") && len(onlyNaive) == 0 {
		kind = "stores-differ-naive-lacks-negation-results"
	}
	r.Violate(kind, fmt.Sprintf("only semi-naive: %s; only naive: %s (%s)", mg.Short(onlySemi), mg.Short(onlyNaive), side), w)
}
