//go:build vmap

package main

import (
	"fmt"

	"codeberg.org/TauCeti/mangle-go/analysis"
	"codeberg.org/TauCeti/mangle-go/ast"
	"codeberg.org/TauCeti/mangle-go/verifseam/vmap"

	"verifmc/rt"
)

func init() { workerFns["C03"] = c03MapWorker }

func c03MapWorker(tier string, shard, of, from int) {
	rt.WorkerMain(shard, of, from, c03MapChunks, func(i int) string { return fmt.Sprintf("graph codes = %d mod %d", i, c03MapChunks) }, func(i int) rt.CaseResult {
		return c03MapChunk(i, tier == "thorough")
	})
}

func c03MapChunk(chunk int, thorough bool) rt.CaseResult {
	res := rt.CaseResult{Counters: map[string]int64{}}
	const n = 3
	viol := func(kind, detail string, g []int, pol vmap.Policy) {
		if len(res.Violations) < 4 {
			res.Violations = append(res.Violations, rt.Violation{Kind: "map-order-" + kind, Detail: fmt.Sprintf("%s [%s] under map iteration policy mode=%d deviate_at=%d alternative=%d", detail, graphString(n, g), pol.Mode, pol.DeviateAt, pol.DeviatePerm),
				Witness: map[string]any{"n": n, "graph": g, "edges": graphString(n, g), "mode": pol.Mode, "deviate_at": pol.DeviateAt, "deviate_perm": pol.DeviatePerm}})
		}
	}
	run := func(g []int, pol vmap.Policy) []int {
		vmap.Set(pol)
		var strata []analysis.Nodeset
		var p2s map[ast.PredicateSym]int
		var err error
		pv, st := rt.Try(func() { strata, p2s, err = analysis.Stratify(c03Program(n, g)) })
		pts := vmap.Points()
		vmap.Set(vmap.Policy{DeviateAt: -1})
		res.Counters["map_order_executions"]++
		res.Counters["transitions"]++
		res.Counters["evaluations"]++
		res.Counters["traces_validated_against_impl"]++
		if pv != nil {
			viol("panic", fmt.Sprintf("%v at %s", pv, rt.ShortStack(st)), g, pol)
			return pts
		}
		if kind, detail := c03Check(n, g, strata, p2s, err); kind != "" {
			viol(kind, detail, g, pol)
		}
		return pts
	}
	type space struct {
		alphabet   []int
		deviations bool
	}
	spaces := []space{{[]int{lAbsent, lPos, lNeg}, true}, {[]int{lAbsent, lPos, lNeg, lAgg}, false}}
	if thorough {
		spaces = []space{{[]int{lAbsent, lPos, lNeg, lAgg}, true}, {[]int{lAbsent, lPos, lNeg, lAgg, lTPos}, false}, {[]int{lAbsent, lPos, lNeg, lPosNeg, lNegPos, lTNeg}, false}}
	}
	first := map[int]bool{}
	for _, l := range spaces[0].alphabet {
		first[l] = true
	}
	for si, sp := range spaces {
		total := 1
		for i := 0; i < n*n; i++ {
			total *= len(sp.alphabet)
		}
		for code := chunk; code < total; code += c03MapChunks {
			g := decodeGraph(code, n, len(sp.alphabet), sp.alphabet)
			if si > 0 {
				// graphs already covered by the first space are skipped
				onlyFirst := true
				for _, l := range g {
					if !first[l] {
						onlyFirst = false
					}
				}
				if onlyFirst {
					continue
				}
			}
			res.Counters["map_order_graphs"]++
			pts := run(g, vmap.Policy{Mode: 0, DeviateAt: -1})
			res.Counters["map_order_points"] += int64(len(pts))
			for mode := 1; mode <= 3; mode++ {
				run(g, vmap.Policy{Mode: mode, DeviateAt: -1})
			}
			if !sp.deviations {
				continue
			}
			for i, k := range pts {
				for a := 1; a <= vmap.Alternatives(k); a++ {
					run(g, vmap.Policy{Mode: 0, DeviateAt: i, DeviatePerm: a})
				}
			}
		}
	}
	res.Outcome = fmt.Sprintf("chunk %d", chunk%4)
	return res
}
