package main

import (
	"sync"
	"fmt"
	"strings"
	"time"

	"codeberg.org/TauCeti/mangle-go/ast"
	"codeberg.org/TauCeti/mangle-go/parse"
	"codeberg.org/TauCeti/mangle-go/symbols"

	"verifmc/rt"
)

func init() { register("C12", c12) }

type c12Type struct {
	expr ast.BaseTerm
	h    symbols.TypeHandle
	text string
}

func c12Types(thorough bool) []c12Type {
	var out []c12Type
	seen := map[string]bool{}
	add := func(e ast.BaseTerm) {
		h, err := symbols.NewSetHandle(e)
		if err != nil {
			return
		}
		t := e.String()
		if seen[t] {
			return
		}
		seen[t] = true
		out = append(out, c12Type{e, h, t})
		// the same type as it comes out of the parser (function symbols then carry the actual arity)
		if _, isApply := e.(ast.ApplyFn); isApply && len(out)%3 == 0 {
			if pe, err := parse.BaseTerm(t); err == nil {
				if ph, err := symbols.NewSetHandle(pe); err == nil {
					out = append(out, c12Type{pe, ph, t + " (parsed)"})
				}
			}
		}
	}
	n := name2
	base := []ast.BaseTerm{ast.AnyBound, ast.NumberBound, ast.StringBound, ast.NameBound, ast.Float64Bound, ast.BytesBound, ast.TimeBound, ast.DurationBound,
		n("/a"), n("/a/b"), n("/ab"), n("/b"), n("/ab/z"), n("/a/bc"), n("/a/b/y"),
		symbols.NewSingletonType(n("/a/x")), symbols.NewSingletonType(ast.Number(1)), symbols.NewSingletonType(ast.String("s")), symbols.NewSingletonType(n("/ab/z"))}
	for _, b := range base {
		add(b)
	}
	A := []ast.BaseTerm{ast.AnyBound, ast.NumberBound, ast.StringBound, ast.NameBound, n("/a"), n("/a/b"), n("/ab"), symbols.NewSingletonType(n("/a/x")), n("/ab/z")}
	f, g := n("/f"), n("/g")
	for _, x := range A {
		add(symbols.NewListType(x))
		add(symbols.NewStructType(f, x))
		add(symbols.NewStructType(f, ast.NumberBound, symbols.NewOpt(g, x)))
		add(symbols.NewOptionType(x))
		for _, y := range A {
			add(symbols.NewPairType(x, y))
			add(symbols.NewMapType(x, y))
			add(symbols.NewUnionType(x, y))
			add(symbols.NewStructType(f, x, g, y))
		}
	}
	for _, x := range A[:4] {
		for _, y := range A[4:] {
			add(symbols.NewTupleType(x, y, ast.NumberBound))
			add(symbols.NewStructType(f, x, symbols.NewOpt(g, y)))
		}
	}
	// tuples of different lengths over the same components; tagged unions over different tag sets and field types
	for _, x := range A[1:5] {
		for _, y := range A[1:5] {
			add(symbols.NewTupleType(x, y, ast.NumberBound, ast.StringBound))
			add(symbols.NewTupleType(ast.NumberBound, x, y))
		}
	}
	add(symbols.NewTupleType(ast.NumberBound, ast.NumberBound, ast.NumberBound))
	add(symbols.NewTupleType(ast.NumberBound, ast.NumberBound, ast.NumberBound, ast.NumberBound))
	add(symbols.NewTupleType(ast.AnyBound, ast.AnyBound, ast.AnyBound))
	add(symbols.NewTupleType(ast.AnyBound, ast.AnyBound, ast.AnyBound, ast.AnyBound))
	add(symbols.NewTaggedUnionType(n("/kind"), n("/k2"), symbols.NewStructType(g, ast.StringBound)))
	add(symbols.NewTaggedUnionType(n("/kind"), n("/k1"), symbols.NewStructType(f, ast.StringBound), n("/k2"), symbols.NewStructType(g, ast.StringBound)))
	add(symbols.NewTaggedUnionType(n("/tag"), n("/k1"), symbols.NewStructType(f, ast.NumberBound)))
	add(symbols.NewStructType(n("/kind"), n("/k1"), f, ast.NumberBound))
	add(symbols.NewStructType(n("/kind"), ast.NameBound, f, ast.NumberBound))
	add(symbols.NewStructType(n("/kind"), symbols.NewSingletonType(n("/k1")), f, ast.NumberBound))
	add(symbols.NewStructType())
	// unions whose alternatives are unions that partly overlap other types
	add(symbols.NewUnionType(symbols.NewUnionType(n("/a"), ast.NumberBound), ast.StringBound))
	add(symbols.NewUnionType(ast.StringBound, symbols.NewUnionType(ast.NumberBound, n("/a/b"))))
	add(symbols.NewUnionType(symbols.NewUnionType(n("/a/b"), n("/b")), symbols.NewUnionType(ast.NumberBound, ast.Float64Bound)))
	// tagged unions with an empty variant first and in the middle
	add(symbols.NewTaggedUnionType(n("/kind"), n("/k2"), symbols.NewStructType(), n("/k1"), symbols.NewStructType(f, ast.NumberBound)))
	add(symbols.NewTaggedUnionType(n("/kind"), n("/k1"), symbols.NewStructType(f, ast.NumberBound), n("/k2"), symbols.NewStructType(), n("/k3"), symbols.NewStructType(g, ast.StringBound)))
	add(symbols.NewTaggedUnionType(n("/kind"), n("/k2"), symbols.NewStructType(), n("/k3"), symbols.NewStructType(), n("/k1"), symbols.NewStructType(f, ast.NumberBound)))
	// only optional fields: the empty struct is a member
	add(symbols.NewStructType(symbols.NewOpt(g, ast.NumberBound)))
	add(symbols.NewStructType(symbols.NewOpt(f, ast.StringBound), symbols.NewOpt(g, ast.NumberBound)))
	add(symbols.NewUnionType())
	add(symbols.NewTaggedUnionType(n("/kind"), n("/k1"), symbols.NewStructType(f, ast.NumberBound), n("/k2"), symbols.NewStructType(g, ast.StringBound)))
	add(symbols.NewTaggedUnionType(n("/kind"), n("/k1"), symbols.NewStructType(f, ast.NumberBound)))
	add(symbols.NewTaggedUnionType(n("/kind"), n("/k1"), symbols.NewStructType(f, ast.AnyBound), n("/k2"), symbols.NewStructType()))
	// second level
	B := []ast.BaseTerm{ast.NumberBound, n("/a"), n("/ab"), symbols.NewListType(ast.NumberBound), symbols.NewListType(n("/a")), symbols.NewPairType(ast.NumberBound, n("/a")),
		symbols.NewMapType(n("/a"), ast.NumberBound), symbols.NewStructType(f, ast.NumberBound), symbols.NewUnionType(ast.NumberBound, ast.StringBound), ast.AnyBound,
		symbols.NewStructType(f, n("/a"), g, ast.NumberBound), symbols.NewMapType(ast.NameBound, ast.AnyBound)}
	for _, x := range B {
		add(symbols.NewListType(x))
		add(symbols.NewStructType(f, x))
		for _, y := range B {
			if thorough || (len(out)%2 == 0) {
				add(symbols.NewPairType(x, y))
				add(symbols.NewMapType(x, y))
			}
			add(symbols.NewUnionType(x, y))
		}
	}
	return out
}

func c12Consts() []ast.Constant {
	n := name2
	leaves := []ast.Constant{n("/a"), n("/a/x"), n("/a/b"), n("/a/b/y"), n("/ab"), n("/ab/z"), n("/b/x"), n("/k1"), n("/k2"), n("/ab/z/w"), n("/a/bc/d"), n("/a/b/y/v"),
		ast.Number(1), ast.Number(2), ast.String("s"), ast.String("t"), ast.Float64(1.5), ast.Bytes([]byte("b")), ast.Time(5), ast.Duration(7)}
	out := append([]ast.Constant{}, leaves...)
	f, g, kind := n("/f"), n("/g"), n("/kind")
	mk := func(elems []ast.Constant) []ast.Constant {
		var o []ast.Constant
		o = append(o, ast.ListNil, ast.MapNil, ast.StructNil)
		for i := range elems {
			a := elems[i]
			o = append(o, ast.List([]ast.Constant{a}))
			o = append(o, *ast.Struct(map[*ast.Constant]*ast.Constant{&f: &a}))
			o = append(o, *ast.Struct(map[*ast.Constant]*ast.Constant{&g: &a}))
			for j := range elems {
				b := elems[j]
				o = append(o, ast.Pair(&a, &b))
				o = append(o, *ast.Map(map[*ast.Constant]*ast.Constant{&a: &b}))
				if (i+j)%3 == 0 {
					o = append(o, ast.List([]ast.Constant{a, b}))
					o = append(o, *ast.Struct(map[*ast.Constant]*ast.Constant{&f: &a, &g: &b}))
				}
			}
		}
		return o
	}
	l1 := mk(leaves[:17])
	out = append(out, l1...)
	// tagged-union shaped structs
	k1, k2 := n("/k1"), n("/k2")
	one, s := ast.Number(1), ast.String("s")
	out = append(out, *ast.Struct(map[*ast.Constant]*ast.Constant{&kind: &k1, &f: &one}), *ast.Struct(map[*ast.Constant]*ast.Constant{&kind: &k2, &g: &s}),
		*ast.Struct(map[*ast.Constant]*ast.Constant{&kind: &k2}), *ast.Struct(map[*ast.Constant]*ast.Constant{&kind: &k1, &g: &s}))
	k3 := n("/k3")
	out = append(out, *ast.Struct(map[*ast.Constant]*ast.Constant{&kind: &k3}), *ast.Struct(map[*ast.Constant]*ast.Constant{&kind: &k3, &g: &s}))
	// second level over a few first-level values
	ax := n("/a/x")
	abz := n("/ab/z")
	l2 := []ast.Constant{one, ax, abz, ast.List([]ast.Constant{one}), ast.List([]ast.Constant{ax}), ast.Pair(&one, &ax), ast.Pair(&one, &abz),
		*ast.Map(map[*ast.Constant]*ast.Constant{&ax: &one}), *ast.Struct(map[*ast.Constant]*ast.Constant{&f: &one}), *ast.Struct(map[*ast.Constant]*ast.Constant{&f: &ax, &g: &one}), s,
		*ast.Map(map[*ast.Constant]*ast.Constant{&abz: &one}), ast.List([]ast.Constant{abz})}
	out = append(out, mk(l2)...)
	// tuple-shaped values (right-nested pairs) of length 3 and 4, and structs with a tag field
	P := func(a, b ast.Constant) ast.Constant { return ast.Pair(&a, &b) }
	two := ast.Number(2)
	for _, x := range []ast.Constant{one, s, ax, abz} {
		for _, y := range []ast.Constant{one, s, ax} {
			out = append(out, P(x, P(y, one)), P(x, P(y, P(one, s))), P(one, P(x, y)), P(x, P(y, P(two, two))))
		}
	}
	tag := n("/tag")
	out = append(out, *ast.Struct(map[*ast.Constant]*ast.Constant{&tag: &k1, &f: &one}), *ast.Struct(map[*ast.Constant]*ast.Constant{&kind: &k1, &f: &s}),
		*ast.Struct(map[*ast.Constant]*ast.Constant{&kind: &ax, &f: &one}), *ast.Struct(map[*ast.Constant]*ast.Constant{&kind: &one, &f: &one}))
	return out
}

func c12(r *rt.Run) {
	r.Assumptions = []string{
		"membership = the library's own TypeHandle.HasType on a universe V of ~1500 constants; every alarm carries a concrete constant as witness",
		"completeness is relative to V: a wrong conformance judgement whose counterexample is not in V is not detected (reported: separating constants found for non-conforming pairs)",
	}
	r.SetBudget(200*time.Second, 1800*time.Second)
	T := c12Types(r.Thorough())
	V := c12Consts()
	r.Extra["types"] = len(T)
	r.Extra["constants"] = len(V)
	M := make([][]bool, len(T))
	rt.ForRange(len(T), func(i int) {
		M[i] = make([]bool, len(V))
		for j, v := range V {
			M[i][j] = T[i].h.HasType(v)
		}
	})
	// membership in a tagged union is membership in one of its variants read as a struct type with a singleton tag —
	// decided here variant by variant with the library's own struct membership and compared with its answer for the union
	for i := range T {
		tu, ok := T[i].expr.(ast.ApplyFn)
		if !ok || tu.Function.Symbol != symbols.TaggedUnionType.Symbol || len(tu.Args) < 3 || len(tu.Args)%2 != 1 {
			continue
		}
		var variants []symbols.TypeHandle
		wellformed := true
		for k := 1; k+1 < len(tu.Args); k += 2 {
			st, ok := tu.Args[k+1].(ast.ApplyFn)
			tag, ok2 := tu.Args[k].(ast.Constant)
			if !ok || !ok2 {
				wellformed = false
				break
			}
			args := append([]ast.BaseTerm{tu.Args[0], symbols.NewSingletonType(tag)}, st.Args...)
			h, err := symbols.NewSetHandle(symbols.NewStructType(args...))
			if err != nil {
				wellformed = false
				break
			}
			variants = append(variants, h)
		}
		if !wellformed {
			continue
		}
		for j, v := range V {
			want := false
			for _, h := range variants {
				if h.HasType(v) {
					want = true
				}
			}
			r.Add("evaluations", 1)
			if M[i][j] != want {
				r.Violate("tagged-union-membership", fmt.Sprintf("HasType(%s, %v) = %v, but membership in its variants (struct types with a singleton tag) gives %v", T[i].text, v, M[i][j], want), map[string]any{"type": T[i].text, "constant": v.String()})
			}
		}
	}
	inhabited := 0
	for i := range T {
		for j := range V {
			if M[i][j] {
				inhabited++
				break
			}
		}
	}
	r.Extra["types_inhabited_in_V"] = inhabited
	_ = func(s, t c12Type) string {
		ss, ts := s.text, t.text
		switch {
		case strings.Contains(ss, "fn:Map") && strings.Contains(ts, "fn:Map"):
			return "map-key-variance"
		case strings.Contains(ss, "fn:Struct") && strings.Contains(ts, "fn:Struct"):
			return "struct-width-or-optional"
		}
		return "general"
	}
	subsetViolation := func(si, ti int) int {
		for j := range V {
			if M[si][j] && !M[ti][j] {
				return j
			}
		}
		return -1
	}
	// conformance
	rt.ForRange(len(T), func(i int) {
		for j := range T {
			r.Add("evaluations", 1)
			var conf bool
			pv, st := rt.Try(func() { conf = symbols.SetConforms(nil, T[i].expr, T[j].expr) })
			if pv != nil {
				r.Violate("panic", fmt.Sprintf("SetConforms(%s,%s): %v at %s", T[i].text, T[j].text, pv, rt.ShortStack(st)), map[string]any{"S": T[i].text, "T": T[j].text})
				continue
			}
			w := subsetViolation(i, j)
			if conf {
				r.Add("conforming_pairs", 1)
				if w >= 0 {
					r.Violate("conforms-but-not-subset"+explain(T[j].expr, V[w]),
						fmt.Sprintf("SetConforms(%s, %s) is affirmed but %s is a member of the first and not of the second", T[i].text, T[j].text, V[w].String()),
						map[string]any{"S": T[i].text, "T": T[j].text, "witness": V[w].String()})
				}
			} else {
				r.Add("non_conforming_pairs", 1)
				if w >= 0 {
					r.Add("non_conforming_pairs_with_separating_constant", 1)
				}
			}
		}
	})
	// bounds over a sub-alphabet
	var sub []int
	stepS := len(T)/40 + 1
	for i := 0; i < len(T); i += stepS {
		sub = append(sub, i)
	}
	for i := 0; i < 16 && i < len(T); i++ {
		sub = append(sub, i)
	}
	checkBounds := func(idx []int) {
		r.Add("evaluations", 1)
		var exprs []ast.BaseTerm
		var texts []string
		for _, i := range idx {
			exprs = append(exprs, T[i].expr)
			texts = append(texts, T[i].text)
		}
		w := map[string]any{"types": texts}
		var ub, lb ast.BaseTerm
		pv, st := rt.Try(func() {
			ub = symbols.UpperBound(nil, exprs)
			lb = symbols.LowerBound(nil, exprs)
		})
		if pv != nil {
			r.Violate("panic", fmt.Sprintf("bounds of %v: %v at %s", texts, pv, rt.ShortStack(st)), w)
			return
		}
		if ub.Equals(symbols.EmptyType) {
			// the library's representation of the empty type: no members
			for _, i := range idx {
				for j, v := range V {
					if M[i][j] {
						w["witness"] = v.String()
						r.Violate("upper-bound-misses-member", fmt.Sprintf("UpperBound(%v) is the empty type but %s is a member of %s", texts, v.String(), T[i].text), w)
						return
					}
				}
			}
		} else if uh, err := symbols.NewSetHandle(ub); err != nil {
			r.Violate("upper-bound-ill-formed", fmt.Sprintf("UpperBound(%v) = %v is not a well-formed type: %v", texts, ub, err), w)
		} else {
			for _, i := range idx {
				for j, v := range V {
					if M[i][j] && !uh.HasType(v) {
						w["witness"] = v.String()
						r.Violate("upper-bound-misses-member"+explain(ub, v), fmt.Sprintf("UpperBound(%v) = %v does not contain %s, a member of %s", texts, ub, v.String(), T[i].text), w)
						return
					}
				}
			}
		}
		if lb.Equals(symbols.EmptyType) {
			// empty type: trivially a lower bound
		} else if lh, err := symbols.NewSetHandle(lb); err != nil {
			r.Violate("lower-bound-ill-formed", fmt.Sprintf("LowerBound(%v) = %v is not a well-formed type: %v", texts, lb, err), w)
		} else {
			for j, v := range V {
				if !lh.HasType(v) {
					continue
				}
				for _, i := range idx {
					if !M[i][j] {
						w["witness"] = v.String()
						r.Violate("lower-bound-has-non-member"+explain(T[i].expr, v), fmt.Sprintf("LowerBound(%v) = %v contains %s, which is not a member of %s", texts, lb, v.String(), T[i].text), w)
						return
					}
				}
			}
		}
	}
	rt.ForRange(len(T), func(i int) {
		for j := range T {
			checkBounds([]int{i, j})
		}
	})
	rt.ForRange(len(sub), func(a int) {
		for _, b := range sub {
			for _, c := range sub {
				checkBounds([]int{sub[a], b, c})
			}
		}
	})
	for i := 0; i < len(T); i += 37 {
		r.Sample(map[string]any{"type": T[i].text})
	}
	for i := 0; i < len(V); i += 211 {
		r.Sample(map[string]any{"constant": V[i].String()})
	}
	r.Extra["states"] = len(T) * len(T)
	r.Extra["transitions"] = r.Get("evaluations")
	r.Extra["traces_validated_against_impl"] = r.Get("evaluations")
	r.Extra["distinct_nontrivial"] = r.Get("conforming_pairs")
	r.Finish("closed type universe (base types, name-prefix types, singletons; pair/list/map/struct/option/union/tuple/tagged-union over an 8-type alphabet; a second level over 12 types) x constant universe V (depth<=2); " +
		"every ordered pair (S,T): SetConforms affirmed => members_V(S) subset of members_V(T); UpperBound/LowerBound of every pair and of every triple of a ~55-type sub-alphabet; non-trivial = pairs where conformance is affirmed")
}

// taggedUnionVariantMember decides membership of c in a tagged union type variant by variant: each variant read as a
// struct type with a singleton tag, judged by the library's own struct membership. ok is false when t is not a
// well-formed tagged union.
func taggedUnionVariantMember(t ast.BaseTerm, c ast.Constant) (member, ok bool) {
	tu, isApply := t.(ast.ApplyFn)
	if !isApply || tu.Function.Symbol != symbols.TaggedUnionType.Symbol || len(tu.Args) < 3 || len(tu.Args)%2 != 1 {
		return false, false
	}
	for k := 1; k+1 < len(tu.Args); k += 2 {
		st, ok1 := tu.Args[k+1].(ast.ApplyFn)
		tag, ok2 := tu.Args[k].(ast.Constant)
		if !ok1 || !ok2 {
			return false, false
		}
		args := append([]ast.BaseTerm{tu.Args[0], symbols.NewSingletonType(tag)}, st.Args...)
		h, err := symbols.NewSetHandle(symbols.NewStructType(args...))
		if err != nil {
			return false, false
		}
		if h.HasType(c) {
			member = true
		}
	}
	return member, true
}

// explain attributes a non-membership v ∉ T to the two recorded design inconsistencies: it returns
// "-explained-by-map-key-variance" if v would be a member of T were map key types ignored,
// "-explained-by-struct-width" if v would be a member were structs open (extra fields allowed,
// optional fields may be absent), "-explained-by-map-key-variance+struct-width" if both are needed, else "".
func explain(t ast.BaseTerm, v ast.Constant) string {
	c12ExplainMu.Lock()
	defer c12ExplainMu.Unlock()
	if ownHasType(t, v) {
		return "-although-member-by-the-closed-reading-of-the-type"
	}
	switch {
	case relaxedHasType(t, v, true, false):
		return "-explained-by-map-key-variance"
	case relaxedHasType(t, v, false, true):
		return "-explained-by-struct-width"
	case relaxedHasType(t, v, true, true):
		return "-explained-by-map-key-variance+struct-width"
	case relaxedHasType(t, v, false, false, true):
		return "-explained-by-tagged-union-name-tags"
	case relaxedHasType(t, v, false, true, true):
		// both recorded inconsistencies at once: the tagged union is expanded with /name tags (F60) and the
		// resulting struct types conform by width (F7c)
		return "-explained-by-struct-width+tagged-union-name-tags"
	}
	return ""
}

// relaxedHasType mirrors TypeHandle.HasType with two optional relaxations (used for attribution only).
// ownHasType is the membership test written here, with no relaxation: closed structs whose optional fields may be absent,
// covariant maps, tagged unions with their own tags. Where it says "member" and the library says "not a member", the
// library's membership test is wrong, and that is not one of the recorded inconsistencies of the conformance judgement.
func ownHasType(t ast.BaseTerm, c ast.Constant) bool {
	c12ForceOwn = true
	defer func() { c12ForceOwn = false }()
	return relaxedHasType(t, c, false, false)
}

// c12ForceOwn makes relaxedHasType use its own implementation even when no relaxation is asked for (set only by
// ownHasType; explanations are computed sequentially per violation).
var c12ForceOwn bool
var c12ExplainMu sync.Mutex

func relaxedHasType(t ast.BaseTerm, c ast.Constant, anyMapKey, openStruct bool, tagAnyName ...bool) bool {
	if !c12ForceOwn && !anyMapKey && !openStruct && !(len(tagAnyName) > 0 && tagAnyName[0]) {
		h, err := symbols.NewSetHandle(t)
		return err == nil && h.HasType(c)
	}
	if _, ok := t.(ast.Constant); ok {
		h, err := symbols.NewSetHandle(t)
		return err == nil && h.HasType(c)
	}
	tpe, ok := t.(ast.ApplyFn)
	if !ok {
		return false
	}
	rec := func(t ast.BaseTerm, c ast.Constant) bool { return relaxedHasType(t, c, anyMapKey, openStruct, tagAnyName...) }
	switch tpe.Function.Symbol {
	case "fn:Pair":
		a, b, err := c.PairValue()
		return err == nil && rec(tpe.Args[0], a) && rec(tpe.Args[1], b)
	case "fn:Tuple":
		args := tpe.Args
		res := ast.BaseTerm(symbols.NewPairType(args[len(args)-2], args[len(args)-1]))
		for j := len(args) - 3; j >= 0; j-- {
			res = symbols.NewPairType(args[j], res)
		}
		return rec(res, c)
	case "fn:List":
		if c.Type != ast.ListShape {
			return false
		}
		ok := true
		c.ListValues(func(e ast.Constant) error {
			if !rec(tpe.Args[0], e) {
				ok = false
			}
			return nil
		}, func() error { return nil })
		return ok
	case "fn:Option":
		h, err := symbols.NewSetHandle(t)
		return err == nil && h.HasType(c)
	case "fn:Map":
		if c.Type != ast.MapShape {
			return false
		}
		ok := true
		c.MapValues(func(k, v ast.Constant) error {
			if (!anyMapKey && !rec(tpe.Args[0], k)) || !rec(tpe.Args[1], v) {
				ok = false
			}
			return nil
		}, func() error { return nil })
		return ok
	case "fn:Struct":
		if c.Type != ast.StructShape {
			return false
		}
		req, err := symbols.StructTypeRequiredArgs(tpe)
		if err != nil {
			return false
		}
		opt, err := symbols.StructTypeOptionaArgs(tpe)
		if err != nil {
			return false
		}
		fields := map[string]ast.BaseTerm{}
		required := map[string]bool{}
		for i := 0; i+1 < len(req); i += 2 {
			k := req[i].(ast.Constant)
			fields[k.Symbol] = req[i+1]
			required[k.Symbol] = true
		}
		for _, o := range opt {
			f := o.(ast.ApplyFn)
			fields[f.Args[0].(ast.Constant).Symbol] = f.Args[1] // an optional field may be absent, also in the closed reading (F66)
		}
		ok := true
		seen := map[string]bool{}
		c.StructValues(func(k, v ast.Constant) error {
			ft, known := fields[k.Symbol]
			if !known {
				if !openStruct {
					ok = false
				}
				return nil
			}
			seen[k.Symbol] = true
			if !rec(ft, v) {
				ok = false
			}
			return nil
		}, func() error { return nil })
		for k := range required {
			if !seen[k] {
				ok = false
			}
		}
		return ok
	case "fn:Union":
		for _, a := range tpe.Args {
			if rec(a, c) {
				return true
			}
		}
		return false
	case "fn:TaggedUnion":
		if len(tagAnyName) > 0 && tagAnyName[0] {
			// the library's own expansion "for bounds": the tag field may hold any name
			tagField, err1 := symbols.TaggedUnionTagField(tpe)
			_, structs, err2 := symbols.TaggedUnionVariants(tpe)
			if err1 != nil || err2 != nil {
				return false
			}
			for _, st := range structs {
				args := append([]ast.BaseTerm{tagField, ast.NameBound}, st.(ast.ApplyFn).Args...)
				if rec(symbols.NewStructType(args...), c) {
					return true
				}
			}
			return false
		}
		ex, err := symbols.ExpandTaggedUnionType(tpe)
		return err == nil && rec(ex, c)
	}
	h, err := symbols.NewSetHandle(t)
	return err == nil && h.HasType(c)
}
