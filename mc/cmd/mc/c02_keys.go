package main

import (
	"fmt"
	"strings"

	"codeberg.org/TauCeti/mangle-go/ast"

	"verifmc/mg"
	"verifmc/oracle"
	"verifmc/rt"
)

// Group keys are compared by value: two solutions belong to the same group exactly when their key
// values are structurally equal. This family puts every ordered pair of a universe of mutually
// confusable constants (equal hashes, equal printed forms up to quoting/escaping, same digits in a
// different kind, nested shapes that flatten to the same text) into the key column.

func c02KeyUniverse() []ast.Constant {
	n := func(s string) ast.Constant {
		c, err := ast.Name(s)
		if err != nil {
			panic(err)
		}
		return c
	}
	S := ast.String
	L := func(xs ...ast.Constant) ast.Constant { return ast.List(xs) }
	P := func(a, b ast.Constant) ast.Constant { return ast.Pair(&a, &b) }
	M := func(k, v ast.Constant) ast.Constant { return *ast.Map(map[*ast.Constant]*ast.Constant{&k: &v}) }
	St := func(k, v ast.Constant) ast.Constant { return *ast.Struct(map[*ast.Constant]*ast.Constant{&k: &v}) }
	one, two := ast.Number(1), ast.Number(2)
	return []ast.Constant{
		one, ast.Number(65792), ast.Number(-1), ast.Float64(1), ast.Float64(1.5), ast.Time(1), ast.Duration(1),
		S("1"), S("a"), S(`a", "b`), S("/a"), S("[1]"), S(""), S(`"`), S(`\`), S("a\nb"), S(`a\nb`), S(`"a"`),
		n("/a"), n("/a/b"), ast.Bytes([]byte("a")), ast.Bytes([]byte(`a", "b`)),
		L(S("a"), S("b")), L(S(`a", "b`)), L(one), L(L(one)), L(one, two), L(S("1")), L(), L(n("/a")), L(S("/a")), L(S("1, 2")), L(S("[1]")),
		P(S(`x", "y`), S("z")), P(S("x"), S(`y", "z`)), P(one, two), P(one, L(two)), P(P(one, two), one), P(one, P(two, one)),
		M(one, two), M(S("1"), two), M(one, S("2")), St(n("/a"), one), St(n("/a"), S("1")),
	}
}

const c02KeySrc = "Decl k(K,V).\n" +
	"h(K,C) :- k(K,V) |> do fn:group_by(K), let C = fn:count().\n" +
	"g(K,S) :- k(K,V) |> do fn:group_by(K), let S = fn:sum(V).\n" +
	"j(K,L,C) :- k(K,V), k(L,_) |> do fn:group_by(K,L), let C = fn:count().\n" +
	"m(K,D) :- k(K,V), V < 9 |> do fn:group_by(K), let D = fn:collect_distinct(V).\n" +
	"cd(D) :- k(K,_) |> do fn:group_by(), let D = fn:collect_distinct(K).\n" +
	"cv(V,D) :- k(K,V), k(_,V) |> do fn:group_by(V), let D = fn:collect_distinct(K).\n"

func c02KeyCase(r *rt.Run, pp parsedProg, U []ast.Constant, i, j int, kind string) {
	edb := []ast.Atom{
		ast.NewAtom("k", U[i], ast.Number(1)),
		ast.NewAtom("k", U[i], ast.Number(2)),
		ast.NewAtom("k", U[j], ast.Number(5)),
		ast.NewAtom("k", U[j], ast.Number(1)),
	}
	w := map[string]any{"family": "group-key-values", "k1": i, "k2": j, "key1": U[i].String(), "key2": U[j].String(), "store": kind, "source": c02KeySrc}
	ref, rerr := oracle.Eval(pp.clauses, edb, oracle.Config{MaxRounds: 20, MaxFacts: 2000})
	if rerr != nil {
		panic(fmt.Sprintf("oracle: %v on group-key family %v %v", rerr, U[i], U[j]))
	}
	want := aggCanon(ref.DB.Atoms())
	var got []string
	var everr error
	pv, st := rt.Try(func() {
		store := mg.NewStoreWithEDB(kind, edb)
		everr = mg.Eval(pp.pi, store)
		got = aggCanon(mg.Atoms(store))
	})
	r.Add("states", 1)
	r.Add("transitions", 1)
	r.Add("evaluations", 1)
	r.Add("traces_validated_against_impl", 1)
	r.Add("group_key_value_cases", 1)
	if i != j {
		r.Add("distinct_nontrivial", 1)
	}
	if pv != nil {
		r.Violate("eval-panic", fmt.Sprintf("%v at %s", pv, rt.ShortStack(st)), w)
		return
	}
	if everr != nil {
		r.Violate("eval-error-group-key", fmt.Sprintf("group keys %v and %v: %v", U[i], U[j], everr), w)
		return
	}
	if missing, extra := mg.Diff(want, got); len(missing)+len(extra) > 0 {
		r.Violate("groups-conflated-or-split", fmt.Sprintf("group keys %v and %v (rows k(K1,1) k(K1,2) k(K2,5) k(K2,1)): head facts differ from the per-key reduction: missing %s; unexpected %s", U[i], U[j], mg.Short(missing), mg.Short(extra)), w)
	}
}

func c02KeyFamily(r *rt.Run) {
	U := c02KeyUniverse()
	pp := prepare(c02KeySrc)
	if pp.err != nil || pp.panicV != nil {
		panic(fmt.Sprintf("C02 key family program rejected: %v %v", pp.err, pp.panicV))
	}
	r.Extra["group_key_universe"] = len(U)
	rt.ForRange(len(U), func(i int) {
		for j := range U {
			// multiarray compares atoms structurally; hash-keyed stores conflate equal-hash atoms already
			// when the base facts are added (C06's finding F8), which is not what this family is about
			c02KeyCase(r, pp, U, i, j, "multiarray")
		}
	})
	_ = strings.Join
}
