package main

import (
	"fmt"

	"codeberg.org/TauCeti/mangle-go/ast"
	"codeberg.org/TauCeti/mangle-go/builtin"
	"codeberg.org/TauCeti/mangle-go/functional"
	"codeberg.org/TauCeti/mangle-go/parse"
	"codeberg.org/TauCeti/mangle-go/unionfind"

	"verifmc/oracle"
	"verifmc/rt"
)

// c07Membership: membership in a list is structural. Every list of <= 3 elements over a universe of scalar and compound
// values is searched for every value of the universe, where the searched value is a copy built independently of the
// list element (re-parsed from its printed form, so that it shares no memory with it): fn:list:contains and
// :list:member must answer by structural equality, the negated forms by its complement.
func c07Membership(c *c07Ctx) {
	one, two := ast.Number(1), ast.Number(2)
	a, _ := ast.Name("/a")
	s := ast.String("s")
	p12 := ast.Pair(&one, &two)
	l12 := ast.List([]ast.Constant{one, two})
	U := []ast.Constant{one, two, a, s, ast.ListNil, p12, ast.Pair(&p12, &a), l12, ast.List([]ast.Constant{l12}), ast.List([]ast.Constant{one}),
		*ast.Map(map[*ast.Constant]*ast.Constant{&one: &a}), *ast.Map(map[*ast.Constant]*ast.Constant{&one: &a, &two: &s}), *ast.Struct(map[*ast.Constant]*ast.Constant{&a: &one}),
		*ast.Struct(map[*ast.Constant]*ast.Constant{&a: &l12}), ast.Float64(1), ast.MapNil, ast.StructNil}
	fresh := make([]ast.Constant, len(U))
	for i, u := range U {
		bt, err := parse.BaseTerm(u.String())
		if err != nil {
			panic(fmt.Sprintf("%v: %v", u, err))
		}
		v, err := functional.EvalExpr(bt, ast.ConstSubstList{})
		if err != nil {
			panic(err)
		}
		fresh[i] = v.(ast.Constant)
	}
	var lists [][]int
	var rec func(cur []int)
	rec = func(cur []int) {
		lists = append(lists, append([]int{}, cur...))
		if len(cur) == 3 {
			return
		}
		for i := range U {
			rec(append(cur, i))
		}
	}
	rec(nil)
	for li, idx := range lists {
		if len(idx) == 3 && li%7 != 0 {
			continue // a seventh of the three-element lists
		}
		var elems []ast.Constant
		for _, i := range idx {
			elems = append(elems, U[i])
		}
		L := ast.List(elems)
		for j := range U {
			want := false
			for _, i := range idx {
				if oracle.Key(U[i]) == oracle.Key(U[j]) {
					want = true
				}
			}
			c.eval()
			v, err := fnApply("fn:list:contains", L, fresh[j])
			got, isTrue := v, v.Equals(ast.TrueConstant)
			if err != nil || isTrue != want || (!isTrue && !v.Equals(ast.FalseConstant)) {
				c.fail(fmt.Sprintf("fn:list:contains(%v, %v) = %v err=%v, structurally %v", L, fresh[j], got, err, want), L.String(), fresh[j].String())
			}
			var holds bool
			var derr error
			pv, st := rt.Try(func() { holds, _, derr = builtin.Decide(ast.NewAtom(":list:member", fresh[j], L), &unionfind.UnionFind{}) })
			if pv != nil || derr != nil || holds != want {
				c.fail(fmt.Sprintf(":list:member(%v, %v) = %v err=%v panic=%v %s, structurally %v", fresh[j], L, holds, derr, pv, rt.ShortStack(st), want), L.String(), fresh[j].String())
			}
		}
	}
}
