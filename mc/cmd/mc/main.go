// Command mc runs one property check: mc <Cnn> [quick|thorough] [replay <file>].
package main

import (
	"fmt"
	"os"
	"sort"

	"verifmc/rt"
)

type checkFn func(r *rt.Run)

var checks = map[string]checkFn{}

func register(id string, fn checkFn) { checks[id] = fn }

// workers: checks that run their cases in killable subprocesses register a worker entry point.
var workerFns = map[string]func(tier string, shard, of, from int){}

func main() {
	if len(os.Args) < 2 {
		ids := make([]string, 0, len(checks))
		for id := range checks {
			ids = append(ids, id)
		}
		sort.Strings(ids)
		fmt.Fprintf(os.Stderr, "usage: mc <id> [quick|thorough] [replay <file>]\nchecks: %v\n", ids)
		os.Exit(2)
	}
	id := os.Args[1]
	if len(os.Args) >= 7 && os.Args[2] == "worker" {
		var shard, of, from int
		fmt.Sscan(os.Args[4], &shard)
		fmt.Sscan(os.Args[5], &of)
		fmt.Sscan(os.Args[6], &from)
		workerFns[id](os.Args[3], shard, of, from)
		return
	}
	fn, ok := checks[id]
	if !ok {
		fmt.Fprintf(os.Stderr, "unknown check %s\n", id)
		os.Exit(2)
	}
	tier := ""
	replay := ""
	for i := 2; i < len(os.Args); i++ {
		switch os.Args[i] {
		case "quick", "thorough":
			tier = os.Args[i]
		case "replay":
			if i+1 < len(os.Args) {
				replay = os.Args[i+1]
				i++
			}
		}
	}
	r := rt.New(id, tier)
	r.Replay = replay
	fn(r)
}
