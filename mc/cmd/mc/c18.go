//go:build vsync

package main

import (
	"fmt"
	"os"
	"os/exec"
	"sort"
	"strings"
	"time"

	"codeberg.org/TauCeti/mangle-go/ast"
	"codeberg.org/TauCeti/mangle-go/factstore"
	"codeberg.org/TauCeti/mangle-go/parse"
	"codeberg.org/TauCeti/mangle-go/verifseam/vsync"

	"verifmc/mg"
	"verifmc/rt"
	"verifmc/statescan"
)

func init() {
	register("C18", c18)
	workerFns["C18"] = c18Worker
}

// ---- stepped base store: correct only under mutual exclusion -------------------------------------

type steppedStore struct {
	inner    *factstore.MultiIndexedArrayInMemoryStore
	universe []ast.Atom
	// mutual-exclusion oracle: the wrapped store is not safe for concurrent use, so a writer must never be
	// inside it together with any other operation (with real threads that is a data race)
	readers, writers int
	excl             string
}

func (s *steppedStore) enter(write bool, what string) {
	if write && (s.readers > 0 || s.writers > 0) || !write && s.writers > 0 {
		if s.excl == "" {
			s.excl = fmt.Sprintf("%s entered the wrapped store while %d reader(s) and %d writer(s) were inside it", what, s.readers, s.writers)
		}
	}
	if write {
		s.writers++
	} else {
		s.readers++
	}
}

func (s *steppedStore) exit(write bool) {
	if write {
		s.writers--
	} else {
		s.readers--
	}
}

func (s *steppedStore) Add(a ast.Atom) bool {
	s.enter(true, "Add")
	defer s.exit(true)
	present := s.inner.Contains(a)
	vsync.Step("base.Add: checked, not yet written")
	if !present {
		s.inner.Add(a)
	}
	vsync.Step("base.Add: written")
	return !present
}

func (s *steppedStore) Remove(a ast.Atom) bool {
	s.enter(true, "Remove")
	defer s.exit(true)
	present := s.inner.Contains(a)
	vsync.Step("base.Remove: checked, not yet removed")
	if present {
		s.inner.Remove(a)
	}
	return present
}

func (s *steppedStore) Contains(a ast.Atom) bool {
	s.enter(false, "Contains")
	defer s.exit(false)
	vsync.Step("base.Contains")
	return s.inner.Contains(a)
}

func (s *steppedStore) GetFacts(q ast.Atom, cb func(ast.Atom) error) error {
	s.enter(false, "GetFacts")
	defer s.exit(false)
	for _, u := range s.universe {
		vsync.Step("base.GetFacts: next candidate")
		if u.Predicate == q.Predicate && factstore.Matches(q.Args, u.Args) && s.inner.Contains(u) {
			if err := cb(u); err != nil {
				return err
			}
		}
	}
	return nil
}

func (s *steppedStore) Merge(other factstore.ReadOnlyFactStore) {
	s.enter(true, "Merge")
	defer s.exit(true)
	for _, p := range other.ListPredicates() {
		other.GetFacts(ast.NewQuery(p), func(a ast.Atom) error {
			vsync.Step("base.Merge: next atom")
			s.inner.Add(a)
			return nil
		})
	}
}

func (s *steppedStore) ListPredicates() []ast.PredicateSym {
	s.enter(false, "ListPredicates")
	defer s.exit(false)
	vsync.Step("base.ListPredicates: reading")
	out := s.inner.ListPredicates()
	vsync.Step("base.ListPredicates: read")
	return out
}

func (s *steppedStore) EstimateFactCount() int {
	s.enter(false, "EstimateFactCount")
	defer s.exit(false)
	vsync.Step("base.EstimateFactCount")
	return s.inner.EstimateFactCount()
}

// ---- operations and the sequential specification ----------------------------------------------

type c18Op struct {
	kind string // add rem has get merge count
	atom int    // 0 = a, 1 = b
}

func (o c18Op) String() string {
	names := []string{"a", "b"}
	switch o.kind {
	case "add":
		return "Add(" + names[o.atom] + ")"
	case "rem":
		return "Remove(" + names[o.atom] + ")"
	case "has":
		return "Contains(" + names[o.atom] + ")"
	case "get":
		return "GetFacts(p(X))"
	case "merge":
		return "Merge({a,b})"
	case "preds":
		return "ListPredicates()"
	case "mergefrom":
		return "other.Merge(store)"
	}
	return "EstimateFactCount()"
}

var c18Ops = []c18Op{{"add", 0}, {"add", 1}, {"rem", 0}, {"has", 0}, {"has", 1}, {"get", 0}, {"merge", 0}, {"count", 0}, {"preds", 0}, {"mergefrom", 0}}

type c18Event struct {
	thread    int
	op        c18Op
	call, ret int
	result    string
}

// apply runs op on the model state (bit 0 = a present, bit 1 = b present); returns result and new state.
func c18Model(state int, o c18Op) (string, int) {
	bit := 1 << o.atom
	switch o.kind {
	case "add":
		if state&bit != 0 {
			return "false", state
		}
		return "true", state | bit
	case "rem":
		if state&bit == 0 {
			return "false", state
		}
		return "true", state &^ bit
	case "has":
		return fmt.Sprint(state&bit != 0), state
	case "get":
		var xs []string
		if state&1 != 0 {
			xs = append(xs, "a")
		}
		if state&2 != 0 {
			xs = append(xs, "b")
		}
		return "{" + strings.Join(xs, ",") + "}", state
	case "merge":
		return "", state | 3
	case "preds", "mergefrom":
		// read-only; their answers are not judged by the set model (a listing may include emptied predicates, a
		// merge out of the store reads it in several steps), they are subject to the mutual-exclusion oracle
		return "", state
	}
	n := 0
	if state&1 != 0 {
		n++
	}
	if state&2 != 0 {
		n++
	}
	return fmt.Sprint(n), state
}

// linearizable: brute-force search for a sequential order that respects real-time precedence.
func c18Linearizable(events []c18Event, init int) bool {
	n := len(events)
	used := make([]bool, n)
	var rec func(done int, state int) bool
	rec = func(done int, state int) bool {
		if done == n {
			return true
		}
		for i := 0; i < n; i++ {
			if used[i] {
				continue
			}
			// i may go next only if no other pending op returned before i was called
			minimal := true
			for j := 0; j < n; j++ {
				if !used[j] && j != i && events[j].ret < events[i].call {
					minimal = false
				}
			}
			if !minimal {
				continue
			}
			res, ns := c18Model(state, events[i].op)
			if res != events[i].result {
				continue
			}
			used[i] = true
			if rec(done+1, ns) {
				return true
			}
			used[i] = false
		}
		return false
	}
	return rec(0, init)
}

type c18Scenario struct {
	threads [][]c18Op
	init    int
}

func (sc c18Scenario) String() string {
	var parts []string
	for i, t := range sc.threads {
		var ops []string
		for _, o := range t {
			ops = append(ops, o.String())
		}
		parts = append(parts, fmt.Sprintf("T%d: %s", i, strings.Join(ops, "; ")))
	}
	init := []string{"{}", "{a}", "{b}", "{a,b}"}[sc.init]
	return "init=" + init + " | " + strings.Join(parts, " | ")
}

var c18Atoms = func() []ast.Atom { return []ast.Atom{ast.NewAtom("p", ast.Number(1)), ast.NewAtom("p", ast.Number(2))} }()

// c18Exec runs the scenario under one schedule; returns the scheduler and the history.
func c18Exec(sc c18Scenario, prefix []int) (*vsync.Sched, []c18Event) {
	s, ev, _ := c18ExecX(sc, prefix)
	return s, ev
}

// c18ExecX also returns the mutual-exclusion oracle's finding ("" if none).
func c18ExecX(sc c18Scenario, prefix []int) (*vsync.Sched, []c18Event, string) {
	base := &steppedStore{inner: factstore.NewMultiIndexedArrayInMemoryStore(), universe: c18Atoms}
	for i, a := range c18Atoms {
		if sc.init&(1<<i) != 0 {
			base.inner.Add(a)
		}
	}
	store := factstore.NewConcurrentFactStore(base)
	clock := 0
	var events []c18Event
	var bodies []func()
	for ti, ops := range sc.threads {
		ti, ops := ti, ops
		bodies = append(bodies, func() {
			for _, o := range ops {
				clock++
				ev := c18Event{thread: ti, op: o, call: clock}
				switch o.kind {
				case "add":
					ev.result = fmt.Sprint(store.Add(c18Atoms[o.atom]))
				case "rem":
					ev.result = fmt.Sprint(store.Remove(c18Atoms[o.atom]))
				case "has":
					ev.result = fmt.Sprint(store.Contains(c18Atoms[o.atom]))
				case "get":
					var xs []string
					store.GetFacts(ast.NewQuery(c18Atoms[0].Predicate), func(a ast.Atom) error {
						if a.Equals(c18Atoms[0]) {
							xs = append(xs, "a")
						} else {
							xs = append(xs, "b")
						}
						return nil
					})
					sort.Strings(xs)
					ev.result = "{" + strings.Join(xs, ",") + "}"
				case "merge":
					src := factstore.NewSimpleInMemoryStore()
					src.Add(c18Atoms[0])
					src.Add(c18Atoms[1])
					store.Merge(src)
				case "count":
					ev.result = fmt.Sprint(store.EstimateFactCount())
				case "preds":
					store.ListPredicates()
				case "mergefrom":
					factstore.NewSimpleInMemoryStore().Merge(store)
				}
				clock++
				ev.ret = clock
				events = append(events, ev)
			}
		})
	}
	s := vsync.Run(prefix, bodies)
	return s, events, base.excl
}

type c18Stats struct {
	schedules, points int64
	histories         map[string]bool
}

// c18Explore enumerates all schedules of the scenario with at most `bound` preemptions (bound < 0: unbounded).
// check is called for every complete execution; it returns a violation description or "".
func c18Explore(run func(prefix []int) *vsync.Sched, bound int, maxSchedules int64, onExec func(s *vsync.Sched, prefix []int) bool) (schedules int64, capped bool) {
	var explore func(prefix []int)
	stop := false
	explore = func(prefix []int) {
		if stop {
			return
		}
		if maxSchedules > 0 && schedules >= maxSchedules {
			capped = true
			return
		}
		s := run(prefix)
		schedules++
		if !onExec(s, prefix) {
			stop = true
			return
		}
		// choices actually taken
		choices := make([]int, len(s.Points))
		for i, p := range s.Points {
			choices[i] = p.Chosen
		}
		pre := 0
		preBefore := make([]int, len(s.Points))
		for i, p := range s.Points {
			preBefore[i] = pre
			if p.Enabled[0] >= 0 && p.RunningEnabled && p.Chosen != 0 {
				pre++
			}
		}
		for i := len(prefix); i < len(s.Points); i++ {
			p := s.Points[i]
			for alt := 1; alt < len(p.Enabled); alt++ {
				cost := preBefore[i]
				if p.Enabled[0] >= 0 && p.RunningEnabled {
					cost++ // switching away from a runnable thread is a preemption; environment choices are deviations too
				} else if p.Enabled[0] < 0 {
					cost++
				}
				if bound >= 0 && cost > bound {
					continue
				}
				np := append(append([]int{}, choices[:i]...), alt)
				explore(np)
			}
		}
	}
	explore(nil)
	return
}

func c18Scenarios(thorough bool) []c18Scenario {
	var seqs [][]c18Op
	for _, a := range c18Ops {
		seqs = append(seqs, []c18Op{a})
	}
	n1 := len(seqs)
	for _, a := range c18Ops {
		for _, b := range c18Ops {
			seqs = append(seqs, []c18Op{a, b})
		}
	}
	var out []c18Scenario
	for _, init := range []int{0, 1} {
		for i := 0; i < len(seqs); i++ {
			for j := i; j < len(seqs); j++ { // threads are symmetric
				out = append(out, c18Scenario{[][]c18Op{seqs[i], seqs[j]}, init})
			}
		}
		// three threads with one operation each (quick: bounded preemptions like everything else)
		for i := 0; i < n1; i++ {
			for j := i; j < n1; j++ {
				for k := j; k < n1; k++ {
					out = append(out, c18Scenario{[][]c18Op{seqs[i], seqs[j], seqs[k]}, init})
				}
			}
		}
	}
	return out
}

func hasWrite(sc c18Scenario) bool {
	for _, t := range sc.threads {
		for _, o := range t {
			if o.kind == "add" || o.kind == "rem" || o.kind == "merge" {
				return true
			}
		}
	}
	return false
}

func c18RunScenario(sc c18Scenario, bound int) rt.CaseResult {
	res := rt.CaseResult{Counters: map[string]int64{"states": 1}}
	histories := map[string]bool{}
	violated := false
	schedules, capped := c18Explore(func(prefix []int) *vsync.Sched {
		s, _ := c18Exec(sc, prefix)
		return s
	}, bound, 200000, func(s *vsync.Sched, prefix []int) bool {
		// re-execute to obtain the history (c18Exec returns it; run twice for the determinism check on violations only)
		_, events, excl := c18ExecX(sc, choicesOf(s))
		res.Counters["transitions"] += int64(len(s.Points))
		res.Counters["evaluations"]++
		res.Counters["traces_validated_against_impl"]++
		w := map[string]any{"scenario": sc.String(), "schedule": choicesOf(s), "threads": opsW(sc), "init": sc.init}
		if s.Diverged {
			res.Violations = append(res.Violations, rt.Violation{Kind: "harness-replay-diverged", Detail: "replaying a recorded prefix hit a choice that does not exist: " + sc.String(), Witness: w})
			return false
		}
		if s.Deadlock {
			res.Violations = append(res.Violations, rt.Violation{Kind: "deadlock", Detail: "no thread enabled: " + sc.String() + " schedule " + fmt.Sprint(choicesOf(s)), Witness: w})
			violated = true
			return false
		}
		if s.Overrun {
			res.Violations = append(res.Violations, rt.Violation{Kind: "livelock-or-overrun", Detail: sc.String(), Witness: w})
			return false
		}
		h := historyString(events)
		histories[h] = true
		if excl != "" {
			w["history"] = h
			res.Violations = append(res.Violations, rt.Violation{Kind: "no-mutual-exclusion", Detail: fmt.Sprintf("%s: %s (schedule %v); the wrapped store is not safe for concurrent use, with real threads this is a data race", sc.String(), excl, choicesOf(s)), Witness: w})
			violated = true
			return false
		}
		if !c18Linearizable(events, sc.init) {
			// determinism: the same schedule must give the same history
			_, ev2 := c18Exec(sc, choicesOf(s))
			if historyString(ev2) != h {
				res.Violations = append(res.Violations, rt.Violation{Kind: "harness-nondeterministic-replay", Detail: sc.String(), Witness: w})
				return false
			}
			w["history"] = h
			res.Violations = append(res.Violations, rt.Violation{Kind: "not-linearizable", Detail: fmt.Sprintf("%s: history %s has no sequential order consistent with a set and with real-time precedence (schedule %v)", sc.String(), h, choicesOf(s)), Witness: w})
			violated = true
			return false
		}
		return true
	})
	_ = violated
	res.Counters["schedules"] = schedules
	if capped {
		res.Counters["scenarios_capped_at_200000_schedules"] = 1
	}
	if len(histories) > 1 && hasWrite(sc) {
		res.Counters["distinct_nontrivial"] = 1
	}
	res.Counters["distinct_histories"] = int64(len(histories))
	res.Outcome = fmt.Sprint(len(histories))
	return res
}

func opsW(sc c18Scenario) []any {
	var out []any
	for _, t := range sc.threads {
		var ops []any
		for _, o := range t {
			ops = append(ops, map[string]any{"kind": o.kind, "atom": o.atom})
		}
		out = append(out, ops)
	}
	return out
}

func choicesOf(s *vsync.Sched) []int {
	out := make([]int, len(s.Points))
	for i, p := range s.Points {
		out[i] = p.Chosen
	}
	return out
}

func historyString(events []c18Event) string {
	var parts []string
	for _, e := range events {
		parts = append(parts, fmt.Sprintf("T%d[%d-%d] %s=%s", e.thread, e.call, e.ret, e.op, e.result))
	}
	return strings.Join(parts, " ; ")
}

// ---- part B: parser pools and parallel pipelines ---------------------------------------------

type c18Call struct {
	name string
	fn   func() string
}

func c18ParserCalls() []c18Call {
	show := func(v any, err error) string {
		if err != nil {
			return "ERR " + err.Error()
		}
		return fmt.Sprint(v)
	}
	return []c18Call{
		{"Unit(valid)", func() string {
			u, err := parse.Unit(strings.NewReader("p(1). q(X) :- p(X)."))
			return show(fmt.Sprint(u.Clauses), err)
		}},
		{"Unit(lexer error)", func() string {
			u, err := parse.Unit(strings.NewReader("p(1). q(X) :- p(X) ^^ ."))
			return show(fmt.Sprint(u.Clauses), err)
		}},
		{"Unit(parser error)", func() string {
			u, err := parse.Unit(strings.NewReader("p(1). q(X) :- :- p(X)."))
			return show(fmt.Sprint(u.Clauses), err)
		}},
		{"Clause(valid)", func() string { c, err := parse.Clause("r(X,Y) :- e(X,Z), r(Z,Y)."); return show(c.String(), err) }},
		{"Term(bad)", func() string { t, err := parse.Term("foo(("); return show(t, err) }},
		{"PredicateName(x)", func() string { n, err := parse.PredicateName("some_pred"); return show(n, err) }},
		{"Atom(valid)", func() string { a, err := parse.Atom("p(1, /a, \"s\")"); return show(a.String(), err) }},
	}
}

func c18PoolCase(seq []int) rt.CaseResult {
	res := rt.CaseResult{Counters: map[string]int64{"states": 1}}
	calls := c18ParserCalls()
	// expected results: each call alone, scheduler inactive
	var want []string
	var names []string
	for _, ci := range seq {
		want = append(want, calls[ci].fn())
		names = append(names, calls[ci].name)
	}
	label := strings.Join(names, " ; ")
	schedules, _ := c18Explore(func(prefix []int) *vsync.Sched {
		return vsync.Run(prefix, []func(){func() {}}) // placeholder, replaced below
	}, 0, 1, func(*vsync.Sched, []int) bool { return true })
	_ = schedules
	var got []string
	run := func(prefix []int) *vsync.Sched {
		got = nil
		return vsync.Run(prefix, []func(){func() {
			for _, ci := range seq {
				got = append(got, calls[ci].fn())
			}
		}})
	}
	n, capped := c18Explore(run, -1, 100000, func(s *vsync.Sched, prefix []int) bool {
		res.Counters["evaluations"]++
		res.Counters["transitions"] += int64(len(s.Points))
		res.Counters["traces_validated_against_impl"]++
		if s.Deadlock || s.Overrun || s.Diverged {
			res.Violations = append(res.Violations, rt.Violation{Kind: "pool-harness-problem", Detail: fmt.Sprintf("%s: deadlock=%v overrun=%v diverged=%v", label, s.Deadlock, s.Overrun, s.Diverged), Witness: map[string]any{"calls": names, "schedule": choicesOf(s)}})
			return false
		}
		for i := range want {
			if i >= len(got) || got[i] != want[i] {
				g := "<missing>"
				if i < len(got) {
					g = got[i]
				}
				res.Violations = append(res.Violations, rt.Violation{Kind: "pooled-object-leaks-state", Detail: fmt.Sprintf("calls [%s] with pool answers %v: call %d returned %q, alone it returns %q", label, choicesOf(s), i, g, want[i]),
					Witness: map[string]any{"calls": names, "schedule": choicesOf(s)}})
				return false
			}
		}
		return true
	})
	res.Counters["schedules"] = n
	if capped {
		res.Counters["scenarios_capped"] = 1
	}
	if n > 1 {
		res.Counters["distinct_nontrivial"] = 1
	}
	return res
}

// c18ParallelParseCase: two goroutines make one parser call each (valid and erroneous inputs); under every
// interleaving of the shim's points (Pool.Get/Put) each call must return what it returns alone. A pooled lexer or
// parser that is still used after it was handed back is taken over by the other goroutine at exactly such a point.
func c18ParallelParseCase(a, b int, bound int) rt.CaseResult {
	res := rt.CaseResult{Counters: map[string]int64{"states": 1}}
	calls := c18ParserCalls()
	wantA, wantB := calls[a].fn(), calls[b].fn()
	label := calls[a].name + " || " + calls[b].name
	var gotA, gotB string
	run := func(prefix []int) *vsync.Sched {
		gotA, gotB = "", ""
		return vsync.Run(prefix, []func(){func() { gotA = calls[a].fn() }, func() { gotB = calls[b].fn() }})
	}
	n, capped := c18Explore(run, bound, 200000, func(s *vsync.Sched, prefix []int) bool {
		res.Counters["evaluations"]++
		res.Counters["transitions"] += int64(len(s.Points))
		res.Counters["traces_validated_against_impl"]++
		w := map[string]any{"calls": []string{calls[a].name, calls[b].name}, "schedule": choicesOf(s)}
		if s.Deadlock || s.Overrun || s.Diverged {
			res.Violations = append(res.Violations, rt.Violation{Kind: "parallel-parse-harness-problem", Detail: fmt.Sprintf("%s: deadlock=%v overrun=%v diverged=%v", label, s.Deadlock, s.Overrun, s.Diverged), Witness: w})
			return false
		}
		if gotA != wantA || gotB != wantB {
			res.Violations = append(res.Violations, rt.Violation{Kind: "parallel-parses-interfere", Detail: fmt.Sprintf("%s under schedule %v: got %q and %q, alone they return %q and %q", label, choicesOf(s), gotA, gotB, wantA, wantB), Witness: w})
			return false
		}
		return true
	})
	res.Counters["schedules"] = n
	if capped {
		res.Counters["scenarios_capped"] = 1
	}
	if n > 1 {
		res.Counters["distinct_nontrivial"] = 1
	}
	return res
}

var c18Programs = []string{
	"Decl e(A,B).\ne(1,2). e(2,3). e(3,1).\np(X,Y) :- e(X,Y).\np(X,Y) :- p(X,Z), e(Z,Y).\n",
	"Decl n(A).\nn(1). n(2). n(5).\nb(X,Y) :- n(X), n(Y), X < Y.\nc(N) :- b(X,_) |> do fn:group_by(), let N = fn:count().\n",
	"d(X) :- X = fn:plus(1, 2).\nt(Y) :- d(X), Y = fn:list(X, \"s\", /n).\n",
}

func c18Pipeline(i int) string {
	pi, err := mg.Analyze(c18Programs[i])
	if err != nil {
		return "ERR " + err.Error()
	}
	store := factstore.NewMultiIndexedArrayInMemoryStore()
	if err := mg.Eval(pi, store); err != nil {
		return "ERR " + err.Error()
	}
	keys, _, _ := mg.Canon(store)
	return strings.Join(keys, "|")
}

func c18ParallelCase(a, b int, withTZ bool, bound int) rt.CaseResult {
	res := rt.CaseResult{Counters: map[string]int64{"states": 1}}
	wantA, wantB := c18Pipeline(a), c18Pipeline(b)
	ast.MustSetTimezone("UTC")
	wantDate := ast.Date(2024, 1, 2).UnixNano()
	var gotA, gotB string
	var gotDates []int64
	run := func(prefix []int) *vsync.Sched {
		gotA, gotB, gotDates = "", "", nil
		bodies := []func(){func() { gotA = c18Pipeline(a) }, func() { gotB = c18Pipeline(b) }}
		if withTZ {
			bodies = append(bodies, func() {
				ast.MustSetTimezone("UTC")
				gotDates = append(gotDates, ast.Date(2024, 1, 2).UnixNano())
				ast.MustSetTimezone("UTC")
				gotDates = append(gotDates, ast.Date(2024, 1, 2).UnixNano())
			})
		}
		return vsync.Run(prefix, bodies)
	}
	n, capped := c18Explore(run, bound, 60000, func(s *vsync.Sched, prefix []int) bool {
		res.Counters["evaluations"]++
		res.Counters["transitions"] += int64(len(s.Points))
		res.Counters["traces_validated_against_impl"]++
		w := map[string]any{"programs": []int{a, b}, "timezone_thread": withTZ, "schedule": choicesOf(s)}
		if s.Deadlock || s.Overrun || s.Diverged {
			res.Violations = append(res.Violations, rt.Violation{Kind: "parallel-deadlock-or-divergence", Detail: fmt.Sprintf("programs %d,%d: deadlock=%v overrun=%v diverged=%v schedule %v", a, b, s.Deadlock, s.Overrun, s.Diverged, choicesOf(s)), Witness: w})
			return false
		}
		if gotA != wantA || gotB != wantB {
			res.Violations = append(res.Violations, rt.Violation{Kind: "parallel-evaluations-interfere", Detail: fmt.Sprintf("programs %d and %d in parallel (schedule %v): results %q / %q, alone %q / %q", a, b, choicesOf(s), gotA, gotB, wantA, wantB), Witness: w})
			return false
		}
		for _, d := range gotDates {
			if d != wantDate {
				res.Violations = append(res.Violations, rt.Violation{Kind: "timezone-interference", Detail: fmt.Sprintf("ast.Date under UTC gave %d, expected %d", d, wantDate), Witness: w})
				return false
			}
		}
		return true
	})
	res.Counters["schedules"] = n
	if capped {
		res.Counters["scenarios_capped"] = 1
	}
	res.Counters["distinct_nontrivial"] = 1
	return res
}

// ---- case table (for the sharded workers) ------------------------------------------------------

type c18Case struct {
	label string
	run   func() rt.CaseResult
}

func c18Cases(thorough bool) []c18Case {
	var out []c18Case
	bound := 2
	for _, sc := range c18Scenarios(thorough) {
		sc := sc
		b := bound
		if thorough && len(sc.threads) == 2 {
			b = -1
		} else if thorough {
			b = 3
		}
		out = append(out, c18Case{"A " + sc.String(), func() rt.CaseResult { return c18RunScenario(sc, b) }})
	}
	calls := c18ParserCalls()
	var seqs [][]int
	for i := range calls {
		seqs = append(seqs, []int{i})
		for j := range calls {
			seqs = append(seqs, []int{i, j})
			for k := range calls {
				if thorough || (i+j+k)%3 == 0 {
					seqs = append(seqs, []int{i, j, k})
				}
			}
		}
	}
	for _, s := range seqs {
		s := s
		out = append(out, c18Case{fmt.Sprint("B-pool ", s), func() rt.CaseResult { return c18PoolCase(s) }})
	}
	for a := range calls {
		for b := range calls {
			a, b := a, b
			out = append(out, c18Case{fmt.Sprintf("B-parallel-parse %d,%d", a, b), func() rt.CaseResult { return c18ParallelParseCase(a, b, bound) }})
		}
	}
	for a := range c18Programs {
		for b := range c18Programs {
			if a == b {
				continue
			}
			a, b := a, b
			out = append(out, c18Case{fmt.Sprintf("B-parallel %d,%d", a, b), func() rt.CaseResult { return c18ParallelCase(a, b, false, bound) }})
			out = append(out, c18Case{fmt.Sprintf("B-parallel %d,%d +timezone", a, b), func() rt.CaseResult { return c18ParallelCase(a, b, true, 1) }})
		}
	}
	return out
}

func c18Worker(tier string, shard, of, from int) {
	cases := c18Cases(tier == "thorough")
	rt.WorkerMain(shard, of, from, len(cases), func(i int) string { return cases[i].label }, func(i int) rt.CaseResult {
		res := cases[i].run()
		if i%211 == 0 {
			res.Sample = map[string]any{"case": cases[i].label, "schedules": res.Counters["schedules"]}
		}
		return res
	})
}

func c18(r *rt.Run) {
	r.Assumptions = []string{
		"scheduling points: every operation of the sync shim (RWMutex, Pool) that replaces package sync in factstore, parse and ast by build overlay, plus explicit steps inside a stepped base store that is correct only under mutual exclusion",
		"a cooperative scheduler cannot observe unsynchronised accesses: data races are covered by a separate free-running `go test -race` pass over the same operations (sampling; listed separately, never counted into the exhaustive numbers)",
		"linearizability is decided by brute force over all orders consistent with real-time precedence against a set model",
		"shared library state is inventoried on every run (verifmc/statescan: writes to package-level variables after initialisation); the only such state is the default timezone, which is behind the shim's mutex; a new write site makes the run non-exhaustive (reported under caps_hit)",
	}
	if r.Replay != "" {
		_, w := rt.ReadReplay(r.Replay)
		fmt.Printf("replay: scenario %v schedule %v\n", w["scenario"], w["schedule"])
		if ths, ok := w["threads"].([]any); ok {
			sc := c18Scenario{init: int(w["init"].(float64))}
			for _, t := range ths {
				var ops []c18Op
				for _, o := range t.([]any) {
					m := o.(map[string]any)
					ops = append(ops, c18Op{fmt.Sprint(m["kind"]), int(m["atom"].(float64))})
				}
				sc.threads = append(sc.threads, ops)
			}
			var prefix []int
			for _, x := range w["schedule"].([]any) {
				prefix = append(prefix, int(x.(float64)))
			}
			_, ev := c18Exec(sc, prefix)
			h := historyString(ev)
			fmt.Println("history:", h)
			if !c18Linearizable(ev, sc.init) {
				r.Violate("not-linearizable", sc.String()+": "+h, w)
			}
		}
		r.Finish("replay")
	}
	cases := c18Cases(r.Thorough())
	r.Extra["scenarios"] = len(cases)
	rt.ConfirmRuns = 1
	rt.RunSharded(r, len(cases), []string{"C18", "worker", r.Tier}, 600*time.Second, 8000000, func(idx int, label, how string) {
		r.Violate("scenario-did-not-return", label+": "+how, map[string]any{"case": label})
	})
	// inventory of shared library state: every write to a package-level variable after initialisation in the
	// repository's non-test code. The interleaving search owns the state behind package sync (the mutex-guarded
	// default timezone, the lexer/parser pools); anything else written at package level is state the scheduler does
	// not see, and the run is then not exhaustive for the second half of the property.
	owned := map[string]bool{"ast.defaultTimezone": true}
	var unowned []string
	sites := statescan.Scan(repoDir())
	for _, s := range sites {
		ok := false
		for o := range owned {
			if strings.Contains(s, "package-level "+o+" ") {
				ok = true
			}
		}
		if !ok {
			unowned = append(unowned, s)
		}
	}
	r.Extra["shared_state_write_sites"] = sites
	if len(unowned) > 0 {
		r.Extra["shared_state_not_owned_by_the_scheduler"] = unowned
		r.Capped(fmt.Sprintf("%d write(s) to package-level state outside the sync shim's view (first: %s): interference through it is not explored exhaustively, only sampled by the race pass", len(unowned), unowned[0]))
	}
	// auxiliary free-running race pass (not model checking)
	iters := "200"
	if r.Thorough() {
		iters = "3000"
	}
	cmd := exec.Command("go", "test", "-race", "-count=1", "-run", "TestRace", "./racepass/")
	cmd.Dir = rt.VerifDir + "/mc"
	cmd.Env = append(os.Environ(), "VERIF_RACE_ITERS="+iters)
	start := time.Now()
	out, err := cmd.CombinedOutput()
	r.Extra["auxiliary_race_pass"] = map[string]any{"command": "go test -race -count=1 -run TestRace ./racepass/ (no overlay, real sync)", "iterations": iters, "seconds": time.Since(start).Seconds(), "passed": err == nil, "kind": "sampling, not counted in states/transitions"}
	if err != nil {
		kind := "race-pass-failed"
		if strings.Contains(string(out), "DATA RACE") {
			kind = "data-race"
		}
		o := string(out)
		if len(o) > 3000 {
			o = o[:3000]
		}
		r.Violate(kind, "free-running -race pass: "+o, map[string]any{"output": o})
	}
	r.Finish("part A: every assignment of 1-2 operations from {Add(a),Add(b),Remove(a),Contains(a),Contains(b),GetFacts(p(X)),Merge({a,b}),EstimateFactCount} to 2 threads (thorough: also 3 threads x 1 op), initial states {} and {a}, every schedule with <= 2 preemptions (thorough: unbounded for 2 threads, 3 for 3 threads) on the real ConcurrentFactStore over a stepped base, each history checked for linearizability; " +
		"part B: every sequence of <= 3 parser calls x every sync.Pool answer (pooled newest/oldest/fresh); two parse-analyse-evaluate pipelines (+ a timezone thread) under every interleaving of the shim's scheduling points with <= 2 preemptions; non-trivial = scenarios with a write and more than one distinct history")
}
