package main

import (
	"bytes"
	"compress/gzip"
	"fmt"
	"sort"
	"strings"
	"time"

	"codeberg.org/TauCeti/mangle-go/ast"
	"codeberg.org/TauCeti/mangle-go/factstore"
	"github.com/klauspost/compress/zstd"

	"verifmc/gen"
	"verifmc/mg"
	"verifmc/oracle"
	"verifmc/rt"
)

func init() { register("C19", c19) }

func c19Write(store factstore.ReadOnlyFactStore, format string, det bool) ([]byte, error) {
	var buf bytes.Buffer
	sc := factstore.SimpleColumn{Deterministic: det}
	switch format {
	case "plain":
		if err := sc.WriteTo(store, &buf); err != nil {
			return nil, err
		}
	case "gzip":
		w := gzip.NewWriter(&buf)
		if err := sc.WriteTo(store, w); err != nil {
			return nil, err
		}
		w.Close()
	case "zstd":
		w, err := zstd.NewWriter(&buf)
		if err != nil {
			return nil, err
		}
		if err := sc.WriteTo(store, w); err != nil {
			return nil, err
		}
		w.Close()
	}
	return buf.Bytes(), nil
}

func c19Plain(data []byte, format string) ([]byte, error) {
	switch format {
	case "gzip":
		r, err := gzip.NewReader(bytes.NewReader(data))
		if err != nil {
			return nil, err
		}
		var b bytes.Buffer
		_, err = b.ReadFrom(r)
		return b.Bytes(), err
	case "zstd":
		r, err := zstd.NewReader(bytes.NewReader(data))
		if err != nil {
			return nil, err
		}
		defer r.Close()
		var b bytes.Buffer
		_, err = b.ReadFrom(r)
		return b.Bytes(), err
	}
	return data, nil
}

func c19Lazy(data []byte, format string) (*factstore.SimpleColumnStore, error) {
	switch format {
	case "gzip":
		return factstore.NewSimpleColumnStoreFromGzipBytes(data)
	case "zstd":
		return factstore.NewSimpleColumnStoreFromZstdBytes(data)
	}
	return factstore.NewSimpleColumnStoreFromBytes(data)
}

func atomKeys(as []ast.Atom) []string {
	var out []string
	for _, a := range as {
		k, err := oracle.AtomKeyOf(a)
		if err != nil {
			k = "NONGROUND:" + a.String()
		}
		out = append(out, k)
	}
	sort.Strings(out)
	return out
}

// c19Case writes `src` in the given format and reads it back every way; family is used for attribution.
func c19Case(r *rt.Run, facts []ast.Atom, src factstore.ReadOnlyFactStore, srcKind, format string, det bool, family string, allPatterns bool) {
	r.Add("states", 1)
	r.Add("evaluations", 1)
	want := atomKeys(facts)
	desc := map[string]any{"family": family, "source_store": srcKind, "format": format, "deterministic": det}
	var fs []string
	for _, a := range facts {
		fs = append(fs, a.String())
	}
	desc["facts"] = fs
	var data []byte
	var werr error
	pv, st := rt.Try(func() { data, werr = c19Write(src, format, det) })
	r.Add("transitions", 1)
	if pv != nil {
		r.Violate("panic-write", fmt.Sprintf("%v at %s", pv, rt.ShortStack(st)), desc)
		return
	}
	if werr != nil {
		r.Violate("write-error", werr.Error(), desc)
		return
	}
	// eager read into several store kinds
	// the exact store first; hash-keyed stores only when no two facts share an Atom.Hash() (their conflation is C06's known finding F8)
	targets := []string{"multiarray"}
	distinctHashes := map[uint64]bool{}
	for _, a := range facts {
		distinctHashes[a.Hash()] = true
	}
	if len(distinctHashes) == len(facts) {
		targets = append(targets, "simple", "indexed")
	}
	for _, tk := range targets {
		var got []string
		var rerr error
		pv, st := rt.Try(func() {
			plain, err := c19Plain(data, format)
			if err != nil {
				rerr = err
				return
			}
			target := mg.NewStore(tk)
			rerr = factstore.SimpleColumn{}.ReadInto(bytes.NewReader(plain), target)
			got = atomKeys(mg.Atoms(target))
		})
		r.Add("transitions", 1)
		r.Add("traces_validated_against_impl", 1)
		d2 := map[string]any{"target": tk}
		for k, v := range desc {
			d2[k] = v
		}
		if pv != nil {
			r.Violate("panic-read", fmt.Sprintf("%v at %s", pv, rt.ShortStack(st)), d2)
			continue
		}
		if rerr != nil {
			r.Violate("read-error-"+family, "ReadInto failed on a file the library wrote: "+rerr.Error(), d2)
			continue
		}
		if missing, extra := mg.Diff(want, got); len(missing)+len(extra) > 0 {
			r.Violate("eager-reload-differs-"+family, fmt.Sprintf("ReadInto(%s): missing %s; unexpected %s", tk, mg.Short(missing), mg.Short(extra)), d2)
		}
		if !allPatterns {
			break
		}
	}
	// lazy view
	pv, st = rt.Try(func() {
		lazy, err := c19Lazy(data, format)
		if err != nil {
			r.Violate("lazy-open-error", err.Error(), desc)
			return
		}
		r.Add("traces_validated_against_impl", 1)
		got := atomKeys(mg.Atoms(lazy))
		if missing, extra := mg.Diff(want, got); len(missing)+len(extra) > 0 {
			r.Violate("lazy-scan-differs-"+family, fmt.Sprintf("lazy full scan: missing %s; unexpected %s", mg.Short(missing), mg.Short(extra)), desc)
			return
		}
		if lazy.EstimateFactCount() != len(want) {
			r.Violate("lazy-count", fmt.Sprintf("EstimateFactCount=%d, %d facts written", lazy.EstimateFactCount(), len(want)), desc)
		}
		perPred := map[ast.PredicateSym]int{}
		for _, a := range facts {
			perPred[a.Predicate]++
		}
		for p, n := range perPred {
			if lazy.FactCount(p) != n {
				r.Violate("lazy-count", fmt.Sprintf("FactCount(%v)=%d want %d", p, lazy.FactCount(p), n), desc)
			}
		}
		for _, a := range facts {
			if !lazy.Contains(a) {
				r.Violate("lazy-contains-"+family, "Contains("+a.String()+") = false for a written fact", desc)
			}
		}
		if !allPatterns {
			return
		}
		// every pattern: each argument a variable or the constant of some fact in that column
		for p := range perPred {
			var colVals [][]ast.BaseTerm
			for i := 0; i < p.Arity; i++ {
				vals := []ast.BaseTerm{ast.Variable{Symbol: "_"}}
				seen := map[string]bool{}
				for _, a := range facts {
					if a.Predicate == p {
						k := oracle.Key(a.Args[i].(ast.Constant))
						if !seen[k] {
							seen[k] = true
							vals = append(vals, a.Args[i])
						}
					}
				}
				vals = append(vals, ast.Number(424242)) // a constant that matches nothing
				colVals = append(colVals, vals)
			}
			var rec func(i int, args []ast.BaseTerm)
			rec = func(i int, args []ast.BaseTerm) {
				if i == p.Arity {
					q := ast.Atom{Predicate: p, Args: append([]ast.BaseTerm{}, args...)}
					var wantQ []string
					for _, a := range facts {
						if a.Predicate == p && patternMatches(q, a) {
							k, _ := oracle.AtomKeyOf(a)
							wantQ = append(wantQ, k)
						}
					}
					sort.Strings(wantQ)
					var gotAtoms []ast.Atom
					lazy.GetFacts(q, func(a ast.Atom) error { gotAtoms = append(gotAtoms, a); return nil })
					gotQ := atomKeys(gotAtoms)
					r.Add("transitions", 1)
					if strings.Join(wantQ, "|") != strings.Join(gotQ, "|") {
						r.Violate("lazy-pattern-query-"+family, fmt.Sprintf("GetFacts(%v) = %s, want %s", q, mg.Short(gotQ), mg.Short(wantQ)), desc)
					}
					return
				}
				for _, v := range colVals[i] {
					rec(i+1, append(args, v))
				}
			}
			rec(0, nil)
		}
	})
	if pv != nil {
		r.Violate("panic-lazy", fmt.Sprintf("%v at %s", pv, rt.ShortStack(st)), desc)
	}
	// the lazy view as the SOURCE of a write (deterministic and not): the bytes of a deterministic copy must be those
	// of a deterministic write of the original store, and the view must answer as before afterwards
	pv, st = rt.Try(func() {
		lazy, err := c19Lazy(data, format)
		if err != nil {
			return
		}
		for _, det2 := range []bool{false, true} {
			copyBytes, err := c19Write(lazy, "plain", det2)
			r.Add("transitions", 1)
			if err != nil {
				r.Violate("write-error-from-lazy-view", err.Error(), desc)
				return
			}
			if det2 {
				ref, _ := c19Write(src, "plain", true)
				if !bytes.Equal(ref, copyBytes) {
					r.Violate("copy-of-lazy-view-differs-"+family, fmt.Sprintf("a deterministic write of the lazy view differs from a deterministic write of the original store:\n%q\nvs\n%q", clip(string(copyBytes), 300), clip(string(ref), 300)), desc)
					return
				}
			}
			got := atomKeys(mg.Atoms(lazy))
			if missing, extra := mg.Diff(want, got); len(missing)+len(extra) > 0 {
				r.Violate("lazy-view-changed-by-being-written-"+family, fmt.Sprintf("after WriteTo(lazy view, deterministic=%v) the view answers differently: missing %s; unexpected %s", det2, mg.Short(missing), mg.Short(extra)), desc)
				return
			}
			perPred := map[ast.PredicateSym]int{}
			for _, a := range facts {
				perPred[a.Predicate]++
			}
			for p, n := range perPred {
				if lazy.FactCount(p) != n {
					r.Violate("lazy-view-changed-by-being-written-"+family, fmt.Sprintf("after WriteTo(lazy view, deterministic=%v): FactCount(%v)=%d want %d", det2, p, lazy.FactCount(p), n), desc)
					return
				}
			}
		}
	})
	if pv != nil {
		r.Violate("panic-lazy-as-source", fmt.Sprintf("%v at %s", pv, rt.ShortStack(st)), desc)
	}
}

func c19(r *rt.Run) {
	r.Assumptions = []string{
		"constants are ground, printable (valid UTF-8, lexer-valid names, finite floats) — the C09 alphabet; a constant is never longer than the scanner's line limit",
		"the written store is read back by ReadInto into three store kinds and through the lazy SimpleColumnStore with every pattern query over the columns' constants",
	}
	r.SetBudget(200*time.Second, 2400*time.Second)
	formats := []string{"plain", "gzip", "zstd"}
	// (i) constants
	var consts []ast.Constant
	famOf := map[string]string{}
	addC := func(c ast.Constant, fam string) {
		consts = append(consts, c)
		famOf[oracle.Key(c)] = fam
	}
	for b := 0; b < 0x80; b++ {
		addC(ast.String(string([]byte{byte(b)})), "string")
	}
	for _, s := range []string{"a\"b", "\\", "\\n", "a\nb", "a\r\nb", "é", "😀", " ", "/a", "%41", "a b", "", "\x00x", "'", "`",
		// code points at the edges of the encoding forms and those that decoders treat specially
		"\ufffd", "x\ufffdy", "\ufffc", "\ufffe", "\uffff", "\u0080", "\u07ff", "\u0800", "\ud7ff", "\ue000", "\U00010000", "\U0010ffff", "\u2028", "\u2029", "\u0085", "\ufeff", "\u200b", "a\u0301"} {
		addC(ast.String(s), "string")
	}
	for b := 0; b < 256; b += 1 {
		addC(ast.Bytes([]byte{byte(b)}), "bytes")
	}
	for _, ch := range "azAZ09.-_~%" {
		for _, tail := range []string{"x", "%41", "%", "%2F", ".5", "-"} {
			if n, err := ast.Name("/" + string(ch) + tail); err == nil {
				fam := "name"
				if strings.Contains("/"+string(ch)+tail, "%") {
					fam = "name-with-percent"
				}
				addC(n, fam)
			}
			if n, err := ast.Name("/p/" + string(ch) + tail + "/q"); err == nil {
				fam := "name"
				if strings.Contains(string(ch)+tail, "%") {
					fam = "name-with-percent"
				}
				addC(n, fam)
			}
		}
	}
	for _, n := range c07I {
		addC(ast.Number(n), "number")
		addC(ast.Time(n), "time")
		addC(ast.Duration(n), "duration")
	}
	for _, f := range []float64{0, 1, -1, 1.5, 1e21, 5e-324, 1e-7, 123456789.125} {
		addC(ast.Float64(f), "float")
	}
	U := gen.Universe(true)
	stepU := 1
	if !r.Thorough() {
		stepU = 3
	}
	for i := 0; i < len(U); i += stepU {
		addC(U[i].C, "structured")
	}
	r.Extra["constants"] = len(consts)
	rt.ForRange(len(consts), func(i int) {
		if r.Expired("C19 constants") {
			return
		}
		c := consts[i]
		c2 := consts[(i+1)%len(consts)]
		fam := famOf[oracle.Key(c)]
		fam2 := fam
		if f2 := famOf[oracle.Key(c2)]; f2 == "name-with-percent" {
			fam2 = f2
		}
		format := formats[i%3]
		{
			for _, f := range formats {
				facts := []ast.Atom{ast.NewAtom("p", c)}
				src := factstore.NewSimpleInMemoryStore()
				src.Add(facts[0])
				c19Case(r, facts, src, "simple", f, true, fam, true)
			}
		}
		facts := []ast.Atom{ast.NewAtom("p", c)}
		src := factstore.NewSimpleInMemoryStore()
		src.Add(facts[0])
		c19Case(r, facts, src, "simple", format, i%2 == 0, fam, true)
		facts2 := []ast.Atom{ast.NewAtom("q", c, c2), ast.NewAtom("q", c2, c)}
		src2 := factstore.NewMultiIndexedArrayInMemoryStore()
		for _, a := range facts2 {
			src2.Add(a)
		}
		if oracle.Key(c) != oracle.Key(c2) {
			c19Case(r, facts2, src2, "multiarray", format, i%2 == 1, fam2, true)
		}
	})
	// (ii) layouts
	type predSpec struct {
		name  string
		arity int
		facts [][]int64 // candidate facts
	}
	specs := []predSpec{
		{"z", 0, [][]int64{{}}}, {"y", 0, [][]int64{{}}},
		{"p", 1, [][]int64{{1}, {2}}}, {"q", 2, [][]int64{{1, 2}, {2, 1}}}, {"r", 3, [][]int64{{1, 2, 3}, {1, 1, 1}}},
		{"p", 2, [][]int64{{1, 2}, {2, 2}}}, // same symbol as p/1, different arity
		{"e", 1, nil},                       // listed but empty
	}
	var layouts [][]int
	var recL func(cur []int)
	recL = func(cur []int) {
		if len(cur) > 0 {
			layouts = append(layouts, append([]int{}, cur...))
		}
		if len(cur) == 4 || (!r.Thorough() && len(cur) == 3) {
			return
		}
		for i := range specs {
			dup := false
			for _, c := range cur {
				if c == i {
					dup = true
				}
			}
			if !dup {
				recL(append(cur, i))
			}
		}
	}
	recL(nil)
	r.Extra["layouts"] = len(layouts)
	rt.ForRange(len(layouts), func(li int) {
		if r.Expired("C19 layouts") {
			return
		}
		lay := layouts[li]
		// number of facts per predicate: every combination of 0..2 (zero-arity: 0..1)
		counts := make([]int, len(lay))
		var recC func(i int)
		recC = func(i int) {
			if i == len(lay) {
				// build the source store in layout order; indexed store keeps predicates listed after removals
				src := factstore.NewIndexedInMemoryStore()
				var facts []ast.Atom
				hasEmptyListed := false
				for k, si := range lay {
					sp := specs[si]
					mk := func(vals []int64) ast.Atom {
						args := make([]ast.BaseTerm, len(vals))
						for j, v := range vals {
							args[j] = ast.Number(v)
						}
						return ast.Atom{Predicate: ast.PredicateSym{Symbol: sp.name, Arity: sp.arity}, Args: args}
					}
					if sp.facts == nil || counts[k] == 0 {
						// listed but empty: add then remove a fact
						var tmp ast.Atom
						if sp.arity == 0 {
							continue // a zero-arity predicate without its fact cannot be listed by this store
						}
						vals := make([]int64, sp.arity)
						tmp = mk(vals)
						src.Add(tmp)
						src.Remove(tmp)
						hasEmptyListed = true
						continue
					}
					for f := 0; f < counts[k]; f++ {
						a := mk(sp.facts[f])
						src.Add(a)
						facts = append(facts, a)
					}
				}
				fam := "layout"
				if hasEmptyListed {
					fam = "layout-with-empty-listed-predicate"
				}
				for fi, f := range formats {
					_ = fi
					c19Case(r, facts, src, "indexed", f, li%2 == 0, fam, true)
				}
				return
			}
			max := 2
			if specs[lay[i]].arity == 0 {
				max = 1
			}
			if specs[lay[i]].facts == nil {
				max = 0
			}
			for c := 0; c <= max; c++ {
				counts[i] = c
				recC(i + 1)
			}
		}
		recC(0)
	})
	// (iii) hand-written files where a zero-arity predicate is listed with count 0 (other writers may produce them)
	for _, file := range []string{"1\nz 0 0\n", "2\nz 0 0\np 1 1\n5\n", "2\np 1 1\nz 0 0\n5\n", "2\nz 0 1\ny 0 0\n"} {
		r.Add("states", 1)
		r.Add("evaluations", 1)
		pv, st := rt.Try(func() {
			lazy, err := factstore.NewSimpleColumnStoreFromBytes([]byte(file))
			if err != nil {
				return
			}
			target := factstore.NewSimpleInMemoryStore()
			if err := (factstore.SimpleColumn{}).ReadInto(strings.NewReader(file), target); err != nil {
				return
			}
			a := atomKeys(mg.Atoms(lazy))
			b := atomKeys(mg.Atoms(target))
			r.Add("traces_validated_against_impl", 1)
			if strings.Join(a, "|") != strings.Join(b, "|") {
				r.Violate("eager-and-lazy-disagree", fmt.Sprintf("file %q: lazy view has %v, ReadInto gives %v", file, a, b), map[string]any{"file": file})
			}
		})
		if pv != nil {
			r.Violate("panic-read", fmt.Sprintf("%v at %s", pv, rt.ShortStack(st)), map[string]any{"file": file})
		}
	}
	// (v) wide predicates: every arity at the edges of the documented limit (at most 2^10 arguments); what the writer
	// accepts, every reader must accept, and the predicate stored after the wide one must survive too
	for _, ar := range []int{3, 64, 255, 256, 1023, 1024, 1025} {
		mkWide := func(base int64) ast.Atom {
			args := make([]ast.BaseTerm, ar)
			for j := range args {
				args[j] = ast.Number(base + int64(j%7))
			}
			return ast.Atom{Predicate: ast.PredicateSym{Symbol: "wide", Arity: ar}, Args: args}
		}
		for nf := 1; nf <= 2; nf++ {
			facts := []ast.Atom{mkWide(0)}
			if nf == 2 {
				facts = append(facts, mkWide(100))
			}
			facts = append(facts, ast.NewAtom("zafter", ast.Number(1)), ast.NewAtom("after", ast.Number(2)))
			src := factstore.NewMultiIndexedArrayInMemoryStore()
			for _, a := range facts {
				src.Add(a)
			}
			for _, f := range formats {
				for _, det := range []bool{true, false} {
					if _, werr := c19Write(src, f, det); werr != nil && ar > 1024 {
						r.Add("writes_refused_above_documented_arity_limit", 1)
						continue // refused by the writer: nothing was written, nothing to read back
					}
					c19Case(r, facts, src, "multiarray", f, det, fmt.Sprintf("wide-predicate-arity-%d", ar), false)
				}
			}
		}
	}
	// (vi) long values: constants whose printed form is around and beyond the buffer sizes readers like (4096, 65536 is
	// the documented line limit and stays out of scope), in the first / middle / last predicate of the file
	for _, n := range []int{100, 4000, 4090, 4096, 4100, 5000, 9000, 40000} {
		long := ast.String(strings.Repeat("x", n))
		var elems []ast.Constant
		for i := 0; i < n/4; i++ {
			elems = append(elems, ast.Number(int64(100+i%900)))
		}
		longList := ast.List(elems)
		for vi, v := range []ast.Constant{long, longList} {
			for pos := 0; pos < 3; pos++ {
				names := []string{"b", "m", "z"} // stores list predicates in their own order; every position is tried by renaming
				var facts []ast.Atom
				for k, nm := range names {
					if k == pos {
						facts = append(facts, ast.NewAtom(nm, ast.Number(1), v), ast.NewAtom(nm, ast.Number(2), ast.String("short")))
					} else {
						facts = append(facts, ast.NewAtom(nm, ast.Number(int64(k)), ast.String("s")), ast.NewAtom(nm, ast.Number(int64(k+5)), ast.Number(7)))
					}
				}
				src := factstore.NewMultiIndexedArrayInMemoryStore()
				for _, a := range facts {
					src.Add(a)
				}
				for _, f := range formats {
					c19Case(r, facts, src, "multiarray", f, (n+vi+pos)%2 == 0, fmt.Sprintf("long-value-%d", n), true)
				}
			}
		}
	}
	// (iv) determinism: same set, every insertion order, every source store kind
	one := ast.Number(1)
	factSets := [][]ast.Atom{
		evalGround([]string{"p(1)", "p(2)", "p(3)", "q(1,2)", "q(2,1)"}),
		evalGround([]string{"p([1])", "p(65792)", "p(1)", "z()", "q(\"a\",/b)"}),
		{ast.NewAtom("p", ast.Pair(&one, &one)), ast.NewAtom("p", ast.List([]ast.Constant{one, one})), ast.NewAtom("p", one), ast.NewAtom("r", one, one, one)},
	}
	for si, set := range factSets {
		for _, sk := range []string{"simple", "indexed", "multi", "multiarray"} {
			if si >= 1 && sk != "multiarray" {
				continue // hash-colliding facts: hash-keyed source stores do not even hold the same set (C06, F8)
			}
			var first []byte
			perms := permutations(len(set))
			for pi, p := range perms {
				if r.Expired("C19 determinism") {
					break
				}
				src := mg.NewStore(sk)
				var facts []ast.Atom
				for _, i := range p {
					src.Add(set[i])
					facts = append(facts, set[i])
				}
				r.Add("states", 1)
				r.Add("evaluations", 1)
				r.Add("traces_validated_against_impl", 1)
				data, err := c19Write(src, "plain", true)
				if err != nil {
					r.Violate("write-error", err.Error(), map[string]any{"set": si, "store": sk})
					break
				}
				data2, _ := c19Write(src, "plain", true)
				if !bytes.Equal(data, data2) {
					r.Violate("deterministic-write-not-repeatable", "two deterministic writes of the same store differ", map[string]any{"set": si, "store": sk, "order": p})
				}
				if pi == 0 {
					first = data
				} else if !bytes.Equal(first, data) {
					hk := ""
					if sk != "multiarray" && si >= 1 {
						hk = "-hash-colliding-facts"
					}
					r.Violate("deterministic-bytes-depend-on-insertion-order"+hk, fmt.Sprintf("deterministic write of the same fact set differs between insertion orders (store %s):\n%s\nvs\n%s", sk, first, data),
						map[string]any{"set": si, "store": sk, "order": p})
					break
				}
			}
		}
	}
	r.Extra["distinct_nontrivial"] = r.Get("states")
	r.Sample(map[string]any{"constant_families": []string{"string", "bytes", "name", "name-with-percent", "number", "time", "duration", "float", "structured"}, "example": consts[200].String()})
	r.Sample(map[string]any{"layout": "z/0 p/1 q/2 with 1,2,0 facts", "formats": formats})
	r.Finish("(i) stores {p(c)} and {q(c,c'),q(c',c)} for every constant of the printable universe (all single-byte strings and bytes, names over every permitted character incl. %, boundary numbers/times/durations, floats, ~1700-5000 structured values); " +
		"(ii) every ordered layout of 1-3 (thorough 4) predicates from z/0,y/0,p/1,q/2,r/3,p/2 (same symbol as p/1),e/1(empty but listed) with 0-2 facts each; formats plain/gzip/zstd, deterministic on/off; read back eagerly into 3 store kinds and lazily with every pattern query; " +
		"(iii) hand-written headers listing empty zero-arity predicates; (iv) every insertion order of 3 fact sets into 4 store kinds written deterministically (byte equality); (vi) long values (strings and lists printing to 100..40000 bytes, around 4096) in the first / middle / last of three predicates; (v) wide predicates of arity 3, 64, 255, 256, 1023, 1024 (the documented limit) and 1025 (must be refused by the writer or round-trip) with 1-2 facts followed by two more predicates, all formats, deterministic on/off")
}
