package main

import (
	"fmt"
	"sort"
	"strings"
	"time"

	"codeberg.org/TauCeti/mangle-go/analysis"
	"codeberg.org/TauCeti/mangle-go/ast"
	"codeberg.org/TauCeti/mangle-go/engine"
	"codeberg.org/TauCeti/mangle-go/factstore"

	"verifmc/mg"
	"verifmc/rt"
)

func init() { register("C14", c14) }

// c14Cfg places the abstract timeline 0..6 on the real one: tick k is origin + k*unit seconds, and the
// evaluation time is handed to the engine as a time.Time in loc (the same instant whatever loc is).
type c14CfgT struct {
	name   string
	origin int64 // unix seconds of tick 0
	unit   int64 // seconds per tick
	loc    *time.Location
}

var c14Cfg = c14CfgT{"seconds from 2024-01-01T00:00:00Z, evaluation time in UTC", 1704067200, 1, time.UTC}

// c14Configs: the base timeline; the same in a fixed non-UTC zone; a 12-hour grid across the start and across
// the end of daylight saving time in America/New_York with the evaluation time in that zone (windows of 24h
// and 36h then span the transition) and, as a control, in UTC.
func c14Configs() []c14CfgT {
	cs := []c14CfgT{c14Cfg, {"seconds from 2024-01-01T00:00:00Z, evaluation time in +05:30", 1704067200, 1, time.FixedZone("IST", 19800)},
		{"12h grid from 2024-03-09T00:00:00Z, evaluation time in UTC", 1709942400, 43200, time.UTC}}
	if ny, err := time.LoadLocation("America/New_York"); err == nil {
		cs = append(cs, c14CfgT{"12h grid from 2024-03-09T00:00:00Z (DST starts 2024-03-10T07:00Z), evaluation time in America/New_York", 1709942400, 43200, ny},
			c14CfgT{"12h grid from 2024-11-02T00:00:00Z (DST ends 2024-11-03T06:00Z), evaluation time in America/New_York", 1730505600, 43200, ny})
	}
	return cs
}

func c14Time(k int64) time.Time { return time.Unix(c14Cfg.origin+k*c14Cfg.unit, 0).In(c14Cfg.loc) }
func c14Stamp(k int64) string   { return c14Time(k).UTC().Format("2006-01-02T15:04:05") }

// c14Dur writes a duration of d ticks the way a user would: whole days as "d", whole hours as "h", else seconds.
func c14Dur(d int64) string {
	sec := d * c14Cfg.unit
	switch {
	case sec != 0 && sec%86400 == 0:
		return fmt.Sprintf("%dd", sec/86400)
	case sec != 0 && sec%3600 == 0:
		return fmt.Sprintf("%dh", sec/3600)
	}
	return fmt.Sprintf("%ds", sec)
}

// model interval in seconds on the timeline; negInf/posInf from c13.go
func c14ToAst(i iv) ast.Interval {
	b := func(x int64) ast.TemporalBound {
		if x == negInf {
			return ast.NegativeInfinity()
		}
		if x == posInf {
			return ast.PositiveInfinity()
		}
		return ast.NewTimestampBound(c14Time(x))
	}
	return ast.NewInterval(b(i.s), b(i.e))
}

func c14FromNanos(s, e int64) iv {
	f := func(x int64) int64 {
		if x == negInf || x == posInf {
			return x
		}
		d := x - c14Cfg.origin*1e9
		if d%(c14Cfg.unit*1e9) != 0 {
			return x // off the grid: shown as raw nanoseconds, equal to no expected tick
		}
		return d / (c14Cfg.unit * 1e9)
	}
	return iv{f(s), f(e)}
}

// normalise merges overlapping or adjacent (<= 1 ns gap; on a seconds grid: overlapping or touching) intervals.
func c14Normalise(ivs []iv) []iv {
	if len(ivs) == 0 {
		return nil
	}
	s := append([]iv{}, ivs...)
	sort.Slice(s, func(i, j int) bool { return s[i].s < s[j].s })
	out := []iv{s[0]}
	for _, x := range s[1:] {
		last := &out[len(out)-1]
		if x.s <= last.e { // share an instant (gap of whole seconds is never "adjacent at 1 ns")
			if x.e > last.e {
				last.e = x.e
			}
		} else {
			out = append(out, x)
		}
	}
	return out
}

type c14Facts struct {
	a1   []iv // intervals of a(1)
	a2   []iv // intervals of a(2)
	text string
}

func c14FactSets(thorough bool) []c14Facts {
	var alphabet []iv
	for s := int64(0); s <= 6; s++ {
		for e := s; e <= 6; e++ {
			alphabet = append(alphabet, iv{s, e})
		}
	}
	alphabet = append(alphabet, iv{negInf, 2}, iv{negInf, 5}, iv{1, posInf}, iv{4, posInf})
	var out []c14Facts
	mk := func(a1 []iv) c14Facts {
		var parts []string
		for _, i := range a1 {
			parts = append(parts, "a(1)"+i.String())
		}
		return c14Facts{a1, []iv{{3, 3}}, strings.Join(parts, " ") + " a(2)[3,3]"}
	}
	out = append(out, mk(nil))
	for i, x := range alphabet {
		out = append(out, mk([]iv{x}))
		for j := i + 1; j < len(alphabet); j++ {
			if false && !thorough && (i+j)%2 == 1 {
				continue
			}
			out = append(out, mk([]iv{x, alphabet[j]}))
		}
	}
	return out
}

func c14Store(f c14Facts) (*factstore.TemporalStore, error) {
	ts := factstore.NewTemporalStore()
	a1 := ast.NewAtom("a", ast.Number(1))
	a2 := ast.NewAtom("a", ast.Number(2))
	for _, i := range f.a1 {
		if _, err := ts.Add(a1, c14ToAst(i)); err != nil {
			return nil, err
		}
	}
	for _, i := range f.a2 {
		if _, err := ts.Add(a2, c14ToAst(i)); err != nil {
			return nil, err
		}
	}
	if err := ts.Coalesce(a1.Predicate); err != nil {
		return nil, err
	}
	return ts, nil
}

type c14Prog struct {
	src    string
	pi     *analysis.ProgramInfo
	op     string // "<-", "[-", "<+", "[+" or "" for annotation programs
	d1, d2 int64
	kind   string // operator | annot-vars | head-copy | head-now | head-open | head-fixed | chain
}

const c14Decls = "Decl a(X) temporal bound [/number].\n"

func c14(r *rt.Run) {
	r.Assumptions = []string{
		"timeline 0..6 s after 2024-01-01T00:00:00Z; evaluation time T in 0..6 s; the store is coalesced before evaluation (premise of the property)",
		"oracle: own interval arithmetic on the normalised union of an atom's intervals; swapped windows (d1 > d2), which the documentation does not define, are executed but their result is not judged",
		"'stored intervals' for annotation enumeration are read from the coalesced store itself (the store is the subject of C13)",
	}
	r.SetBudget(200*time.Second, 1800*time.Second)
	cfgs := c14Configs()
	r.Extra["timeline_configurations"] = len(cfgs)
	for _, cfg := range cfgs {
		c14Cfg = cfg
		c14Pass(r)
	}
	c14Cfg = cfgs[0]
	c14Relations(r)
	r.Finish("timelines: " + fmt.Sprint(len(cfgs)) + " placements of the 0..6 grid (1 s ticks at 2024-01-01 with the evaluation time in UTC and in +05:30; 12 h ticks across the start and the end of daylight saving time with the evaluation time in America/New_York and in UTC, windows written 12h, 1d, 36h); " + c14Rule)
}

const c14Rule = "facts: every set of <= 2 intervals (28 finite + 4 half-bounded on a 0..6 s timeline; quick: half of the pairs) for a(1) plus a(2)@[3,3], coalesced; programs: 4 operators x bounds {now,0s..3s}x{0s..3s} (ordered and swapped) at every evaluation time 0..6 s, " +
	"an operator combined with a variable annotation on the same literal (4 operators x 8 windows, into head arguments and into a head annotation), variable annotations, head annotations (copy, also with a let-transform on the rule, now, open on either side, eternal, eternal then an operator over the derived predicate, fixed), two-rule chains in both clause orders; interval relations: every ordered pair of the 15 intervals over 0..4 x 9 relations; non-trivial = cases whose expected result is non-empty"

func c14Pass(r *rt.Run) {
	factSets := c14FactSets(r.Thorough())
	r.Extra["fact_sets"] = len(factSets)
	var progs []c14Prog
	durs := []int64{0, 1, 2, 3}
	bound := func(d int64) string {
		if d < 0 {
			return "now"
		}
		return c14Dur(d)
	}
	for _, op := range []string{"<-", "[-", "<+", "[+"} {
		for _, d1 := range append([]int64{-1}, durs...) {
			for _, d2 := range durs {
				src := c14Decls + fmt.Sprintf("h(X) :- %s[%s, %s] a(X).\n", op, bound(d1), bound(d2))
				dd1 := d1
				if dd1 < 0 {
					dd1 = 0
				}
				progs = append(progs, c14Prog{src: src, op: op, d1: dd1, d2: d2, kind: "operator"})
			}
		}
	}
	// an operator and a variable annotation on the same literal: the operator selects, the annotation
	// enumerates the stored intervals of the selected atoms
	for _, op := range []string{"<-", "[-", "<+", "[+"} {
		for _, d1 := range []int64{0, 1, 2} {
			for _, d2 := range []int64{1, 2, 3} {
				if d1 > d2 {
					continue
				}
				progs = append(progs, c14Prog{src: c14Decls + fmt.Sprintf("h(X,S,E) :- %s[%s, %s] a(X)@[S,E].\n", op, c14Dur(d1), c14Dur(d2)), op: op, d1: d1, d2: d2, kind: "operator-annot"})
			}
		}
		progs = append(progs, c14Prog{src: c14Decls + fmt.Sprintf("h(X)@[S,E] :- %s[0s, %s] a(X)@[S,E].\n", op, c14Dur(1)), op: op, d1: 0, d2: 1, kind: "operator-annot-head"})
	}
	progs = append(progs,
		c14Prog{src: c14Decls + "h(X,S,E) :- a(X)@[S,E].\n", kind: "annot-vars"},
		c14Prog{src: c14Decls + "h(X)@[S,E] :- a(X)@[S,E].\n", kind: "head-copy"},
		c14Prog{src: c14Decls + "h(X)@[now] :- a(X)@[S,E].\n", kind: "head-now"},
		c14Prog{src: c14Decls + "h(X)@[S,_] :- a(X)@[S,E].\n", kind: "head-open"},
		c14Prog{src: c14Decls + "h(D)@[S,E] :- a(X)@[S,E] |> let D = fn:plus(X, 0).\n", kind: "head-copy"},
		c14Prog{src: c14Decls + "h(D)@[S,_] :- a(X)@[S,E] |> let D = fn:mult(X, 1).\n", kind: "head-open"},
		c14Prog{src: c14Decls + "h(D)@[S,E] :- a(X)@[S,E] |> let D = fn:plus(X, 0).\ng(X)@[S,E] :- h(X)@[S,E].\n", kind: "chain"},
		c14Prog{src: c14Decls + "h(X)@[_,E] :- a(X)@[S,E].\n", kind: "head-open-left"},
		c14Prog{src: c14Decls + "Decl h(X) temporal bound [/number].\nh(X)@[_,_] :- a(X)@[S,E].\n", kind: "head-eternal"},
		c14Prog{src: c14Decls + "Decl h(X) temporal bound [/number].\nh(X)@[_,_] :- a(X)@[S,E].\ng(X) :- <-[0s, " + c14Dur(1) + "] h(X).\n", kind: "head-eternal-then-operator"},
		c14Prog{src: c14Decls + "Decl h(X) temporal bound [/number].\nh(X)@[_,_] :- a(X)@[S,E].\ng(X) :- [+[" + c14Dur(1) + ", " + c14Dur(2) + "] h(X).\n", kind: "head-eternal-then-operator"},
		c14Prog{src: c14Decls + fmt.Sprintf("h(X)@[%s, %s] :- a(X)@[S,E].\n", c14Stamp(1), c14Stamp(3)), kind: "head-fixed"},
		c14Prog{src: c14Decls + "h(X)@[S,E] :- a(X)@[S,E].\ng(X)@[S,E] :- h(X)@[S,E].\n", kind: "chain"},
		c14Prog{src: c14Decls + "g(X)@[S,E] :- h(X)@[S,E].\nh(X)@[S,E] :- a(X)@[S,E].\n", kind: "chain"},
	)
	for i := range progs {
		pi, err := mg.Analyze(progs[i].src)
		if err != nil {
			fmt.Fprintf(os_stderr(), "harness error: C14 program rejected: %s: %v\n", progs[i].src, err)
			panic(err)
		}
		progs[i].pi = pi
	}
	r.Extra["programs"] = len(progs)
	rt.ForRange(len(factSets), func(fi int) {
		if r.Expired("C14 operator/annotation cases") {
			return
		}
		f := factSets[fi]
		for pi := range progs {
			for T := int64(0); T <= 6; T++ {
				if progs[pi].kind != "operator" && !strings.HasPrefix(progs[pi].kind, "operator-annot") && progs[pi].kind != "head-now" && T != 3 {
					continue // annotation programs do not depend on the evaluation time
				}
				c14Case(r, f, &progs[pi], T)
			}
		}
	})
}

func c14Case(r *rt.Run, f c14Facts, p *c14Prog, T int64) {
	r.Add("states", 1)
	r.Add("evaluations", 1)
	r.Add("transitions", 1)
	w := map[string]any{"facts": f.text, "program": p.src, "eval_time_s": T, "timeline": c14Cfg.name}
	ts, err := c14Store(f)
	if err != nil {
		panic(err)
	}
	// the stored (coalesced) intervals per atom, read back from the store
	stored := map[int64][]iv{}
	for _, x := range []int64{1, 2} {
		ts.GetAllFacts(ast.NewAtom("a", ast.Number(x)), func(tf factstore.TemporalFact) error {
			stored[x] = append(stored[x], c14FromNanos(factstore.GetStartTime(tf.Interval), factstore.GetEndTime(tf.Interval)))
			return nil
		})
	}
	store := factstore.NewSimpleInMemoryStore()
	var everr error
	pv, st := rt.Try(func() {
		everr = engine.EvalProgram(p.pi, store, engine.WithTemporalStore(ts), engine.WithEvaluationTime(c14Time(T)))
	})
	r.Add("traces_validated_against_impl", 1)
	if pv != nil {
		r.Violate("panic", fmt.Sprintf("%v at %s", pv, rt.ShortStack(st)), w)
		return
	}
	if everr != nil {
		r.Violate("eval-error", everr.Error(), w)
		return
	}
	switch p.kind {
	case "operator":
		got := map[int64]bool{}
		store.GetFacts(ast.NewQuery(ast.PredicateSym{Symbol: "h", Arity: 1}), func(a ast.Atom) error {
			n, _ := a.Args[0].(ast.Constant).NumberValue()
			got[n] = true
			return nil
		})
		past := p.op == "<-" || p.op == "[-"
		box := p.op == "[-" || p.op == "[+"
		eval := func(d1, d2 int64) map[int64]bool {
			var win iv
			if past {
				win = iv{T - d2, T - d1}
			} else {
				win = iv{T + d1, T + d2}
			}
			out := map[int64]bool{}
			for x, ivs := range map[int64][]iv{1: f.a1, 2: f.a2} {
				for _, c := range c14Normalise(ivs) {
					if box {
						if c.s <= win.s && win.e <= c.e {
							out[x] = true
						}
					} else if c.s <= win.e && win.s <= c.e {
						out[x] = true
					}
				}
			}
			return out
		}
		same := func(a, b map[int64]bool) bool {
			return a[1] == b[1] && a[2] == b[2]
		}
		var want map[int64]bool
		if p.d1 <= p.d2 {
			want = eval(p.d1, p.d2)
			if !same(got, want) {
				r.Violate("operator-"+opName(p.op), fmt.Sprintf("[%s] facts %s, T=%d, %s: derived h for %v, expected %v (window measured %s from T)", c14Cfg.name, f.text, T, strings.TrimSpace(strings.TrimPrefix(p.src, c14Decls)), keysOf(got), keysOf(want), map[bool]string{true: "back", false: "forward"}[past]), w)
			}
		} else {
			// A window written with the larger offset first is not defined by the documentation; it is outside
			// the alphabet (executed for panics/errors only, its result is not judged).
			want = map[int64]bool{}
			r.Add("swapped_window_cases_not_judged", 1)
		}
		if len(want) > 0 {
			r.Add("distinct_nontrivial", 1)
		}
		r.Outcome(fmt.Sprint(keysOf(got)))
	case "operator-annot", "operator-annot-head":
		past := p.op == "<-" || p.op == "[-"
		box := p.op == "[-" || p.op == "[+"
		win := iv{T + p.d1, T + p.d2}
		if past {
			win = iv{T - p.d2, T - p.d1}
		}
		want := map[string]bool{}
		for x, ivs := range stored {
			for _, c := range ivs {
				if box && c.s <= win.s && win.e <= c.e || !box && c.s <= win.e && win.s <= c.e {
					want[fmt.Sprintf("%d%s", x, c)] = true
				}
			}
		}
		got := map[string]bool{}
		if p.kind == "operator-annot" {
			store.GetFacts(ast.NewQuery(ast.PredicateSym{Symbol: "h", Arity: 3}), func(a ast.Atom) error {
				n, _ := a.Args[0].(ast.Constant).NumberValue()
				s, err1 := a.Args[1].(ast.Constant).TimeValue()
				e, err2 := a.Args[2].(ast.Constant).TimeValue()
				if err1 != nil || err2 != nil {
					got["non-time-binding:"+a.String()] = true
					return nil
				}
				got[fmt.Sprintf("%d%s", n, c14FromNanos(s, e))] = true
				return nil
			})
		} else {
			ts.GetAllFacts(ast.NewQuery(ast.PredicateSym{Symbol: "h", Arity: 1}), func(tf factstore.TemporalFact) error {
				n, _ := tf.Atom.Args[0].(ast.Constant).NumberValue()
				got[fmt.Sprintf("%d%s", n, c14FromNanos(factstore.GetStartTime(tf.Interval), factstore.GetEndTime(tf.Interval)))] = true
				return nil
			})
		}
		if d := setDiff(want, got); d != "" {
			r.Violate("operator-with-annotation-"+opName(p.op), fmt.Sprintf("facts %s, T=%ds, %s: the annotation variables must enumerate the stored intervals of the atoms the operator selects: %s", f.text, T, strings.TrimSpace(strings.TrimPrefix(p.src, c14Decls)), d), w)
		}
		if len(want) > 0 {
			r.Add("distinct_nontrivial", 1)
		}
	case "annot-vars":
		got := map[string]bool{}
		store.GetFacts(ast.NewQuery(ast.PredicateSym{Symbol: "h", Arity: 3}), func(a ast.Atom) error {
			n, _ := a.Args[0].(ast.Constant).NumberValue()
			s, err1 := a.Args[1].(ast.Constant).TimeValue()
			e, err2 := a.Args[2].(ast.Constant).TimeValue()
			if err1 != nil || err2 != nil {
				got["non-time-binding:"+a.String()] = true
				return nil
			}
			got[fmt.Sprintf("%d%s", n, c14FromNanos(s, e))] = true
			return nil
		})
		want := map[string]bool{}
		for x, ivs := range stored {
			for _, i := range ivs {
				want[fmt.Sprintf("%d%s", x, i)] = true
			}
		}
		if d := setDiff(want, got); d != "" {
			r.Violate("annotation-variables", fmt.Sprintf("facts %s: h(X,S,E) :- a(X)@[S,E] %s", f.text, d), w)
		}
		r.Add("distinct_nontrivial", 1)
	default:
		// head annotations: read the temporal store for h (and g)
		read := func(pred string) map[string]bool {
			out := map[string]bool{}
			ts.GetAllFacts(ast.NewQuery(ast.PredicateSym{Symbol: pred, Arity: 1}), func(tf factstore.TemporalFact) error {
				n, _ := tf.Atom.Args[0].(ast.Constant).NumberValue()
				out[fmt.Sprintf("%d%s", n, c14FromNanos(factstore.GetStartTime(tf.Interval), factstore.GetEndTime(tf.Interval)))] = true
				return nil
			})
			return out
		}
		want := map[string]bool{}
		for x, ivs := range stored {
			for _, i := range ivs {
				switch p.kind {
				case "head-copy", "chain":
					want[fmt.Sprintf("%d%s", x, i)] = true
				case "head-now":
					want[fmt.Sprintf("%d%s", x, iv{T, T})] = true
				case "head-open":
					want[fmt.Sprintf("%d%s", x, iv{i.s, posInf})] = true
				case "head-open-left":
					want[fmt.Sprintf("%d%s", x, iv{negInf, i.e})] = true
				case "head-eternal", "head-eternal-then-operator":
					want[fmt.Sprintf("%d%s", x, iv{negInf, posInf})] = true
				case "head-fixed":
					want[fmt.Sprintf("%d%s", x, iv{1, 3})] = true
				}
			}
		}
		got := read("h")
		if d := setDiff(want, got); d != "" {
			r.Violate("head-annotation-"+p.kind, fmt.Sprintf("facts %s, T=%d, %s: stored intervals of h: %s", f.text, T, strings.TrimSpace(strings.TrimPrefix(p.src, c14Decls)), d), w)
		}
		if p.kind == "head-eternal-then-operator" {
			// a fact that holds at every instant holds in every window
			wantG, gotG := map[string]bool{}, map[string]bool{}
			for x, ivs := range stored {
				if len(ivs) > 0 {
					wantG[fmt.Sprint(x)] = true
				}
			}
			store.GetFacts(ast.NewQuery(ast.PredicateSym{Symbol: "g", Arity: 1}), func(a ast.Atom) error {
				n, _ := a.Args[0].(ast.Constant).NumberValue()
				gotG[fmt.Sprint(n)] = true
				return nil
			})
			if d := setDiff(wantG, gotG); d != "" {
				r.Violate("head-annotation-eternal-then-operator", fmt.Sprintf("facts %s, T=%d, %s: g: %s", f.text, T, strings.ReplaceAll(strings.TrimPrefix(p.src, c14Decls), "\n", " "), d), w)
			}
		}
		if p.kind == "chain" {
			if d := setDiff(want, read("g")); d != "" {
				r.Violate("head-annotation-chain", fmt.Sprintf("facts %s, %s: stored intervals of g: %s", f.text, strings.ReplaceAll(strings.TrimPrefix(p.src, c14Decls), "\n", " "), d), w)
			}
		}
		r.Add("distinct_nontrivial", 1)
	}
	if r.SampleN() < 6 && p.kind == "operator" && len(f.a1) == 2 && T == 3 && p.d1 == 1 && p.d2 == 2 {
		r.Sample(map[string]any{"facts": f.text, "program": strings.TrimPrefix(p.src, c14Decls), "eval_time_s": T})
	}
}

func opName(op string) string {
	return map[string]string{"<-": "diamond-minus", "[-": "box-minus", "<+": "diamond-plus", "[+": "box-plus"}[op]
}

func keysOf(m map[int64]bool) []int64 {
	var out []int64
	for k, v := range m {
		if v {
			out = append(out, k)
		}
	}
	sort.Slice(out, func(i, j int) bool { return out[i] < out[j] })
	return out
}

func setDiff(want, got map[string]bool) string {
	var missing, extra []string
	for k := range want {
		if !got[k] {
			missing = append(missing, k)
		}
	}
	for k := range got {
		if !want[k] {
			extra = append(extra, k)
		}
	}
	sort.Strings(missing)
	sort.Strings(extra)
	if len(missing)+len(extra) == 0 {
		return ""
	}
	return fmt.Sprintf("missing %v, unexpected %v", missing, extra)
}

func c14Relations(r *rt.Run) {
	var ivs []iv
	for s := int64(0); s <= 4; s++ {
		for e := s; e <= 4; e++ {
			ivs = append(ivs, iv{s, e})
		}
	}
	type rel struct {
		name     string
		f        func(a, b iv) bool
		converse string
	}
	rels := []rel{
		{":interval:before", func(a, b iv) bool { return a.e < b.s }, ":interval:after"},
		{":interval:after", func(a, b iv) bool { return b.e < a.s }, ":interval:before"},
		{":interval:meets", func(a, b iv) bool { return a.e == b.s }, ""},
		{":interval:overlaps", func(a, b iv) bool { return a.s <= b.e && b.s <= a.e }, ":interval:overlaps"},
		{":interval:during", func(a, b iv) bool { return a.s >= b.s && a.e <= b.e }, ":interval:contains"},
		{":interval:contains", func(a, b iv) bool { return b.s >= a.s && b.e <= a.e }, ":interval:during"},
		{":interval:starts", func(a, b iv) bool { return a.s == b.s }, ":interval:starts"},
		{":interval:finishes", func(a, b iv) bool { return a.e == b.e }, ":interval:finishes"},
		{":interval:equals", func(a, b iv) bool { return a == b }, ":interval:equals"},
	}
	pairOf := func(i iv) ast.Constant {
		s, e := ast.Number((c14Cfg.origin+i.s*c14Cfg.unit)*1e9), ast.Number((c14Cfg.origin+i.e*c14Cfg.unit)*1e9)
		return ast.Pair(&s, &e)
	}
	for _, rl := range rels {
		for _, a := range ivs {
			for _, b := range ivs {
				r.Add("states", 1)
				r.Add("evaluations", 1)
				r.Add("transitions", 1)
				r.Add("traces_validated_against_impl", 1)
				ok, _, err := decide(rl.name, pairOf(a), pairOf(b))
				w := map[string]any{"relation": rl.name, "a": a.String(), "b": b.String()}
				if err != nil {
					r.Violate("interval-relation-error", fmt.Sprintf("%s(%s,%s): %v", rl.name, a, b, err), w)
					continue
				}
				if want := rl.f(a, b); ok != want {
					r.Violate("interval-relation-"+strings.TrimPrefix(rl.name, ":interval:"), fmt.Sprintf("%s(%s,%s) = %v, documented definition on closed intervals gives %v", rl.name, a, b, ok, want), w)
				}
				if rl.converse != "" {
					ok2, _, _ := decide(rl.converse, pairOf(b), pairOf(a))
					if ok2 != ok {
						r.Violate("interval-relation-converse", fmt.Sprintf("%s(%s,%s)=%v but %s(%s,%s)=%v", rl.name, a, b, ok, rl.converse, b, a, ok2), w)
					}
				}
				if rl.f(a, b) {
					r.Add("distinct_nontrivial", 1)
				}
			}
		}
	}
	// through a one-rule program
	for _, rl := range rels[:3] {
		for _, a := range ivs[:6] {
			for _, b := range ivs[:6] {
				src := fmt.Sprintf("Decl e(X).\ne(1).\nr(X) :- e(X), %s(fn:pair(%d, %d), fn:pair(%d, %d)).\n", rl.name, a.s, a.e, b.s, b.e)
				pi, err := mg.Analyze(src)
				r.Add("evaluations", 1)
				if err != nil {
					r.Violate("interval-relation-program-rejected", err.Error(), map[string]any{"source": src})
					continue
				}
				store := factstore.NewSimpleInMemoryStore()
				if err := mg.Eval(pi, store); err != nil {
					r.Violate("interval-relation-program-error", err.Error(), map[string]any{"source": src})
					continue
				}
				got := store.Contains(ast.NewAtom("r", ast.Number(1)))
				if got != rl.f(a, b) {
					r.Violate("interval-relation-in-program", fmt.Sprintf("%s: r(1) derived=%v, expected %v", src, got, rl.f(a, b)), map[string]any{"source": src})
				}
			}
		}
	}
}

func os_stderr() *osFile { return stderrFile }
