package main

import (
	"fmt"
	"sort"
	"strings"
	"time"

	"codeberg.org/TauCeti/mangle-go/analysis"
	"codeberg.org/TauCeti/mangle-go/ast"

	"verifmc/mg"
	"verifmc/rt"
)

func init() { register("C03", c03) }

// edge labels
const (
	lAbsent = iota
	lPos
	lNeg
	lAgg
	lTPos
	lTNeg
	lPosNeg // mentioned positively and then negated in the same rule body
	lNegPos // negated and then mentioned positively
	lTAgg   // aggregated, the aggregated body mention being a temporally annotated literal
)

var labelNames = []string{"-", "pos", "neg", "agg", "tpos", "tneg", "pos+neg", "neg+pos", "tagg"}

var c03Names = []string{"a", "b", "c", "d"}

// c03Arity: arities of the IDB predicates. The default scheme gives every predicate its own name and arity 1; the
// overloaded scheme (c03Overloaded) gives all of them one name and tells them apart by arity only.
var c03Arity = []int{1, 1, 1, 1}

func c03Sym(i int) ast.PredicateSym { return ast.PredicateSym{Symbol: c03Names[i], Arity: c03Arity[i]} }

// c03BuiltinFirst: when set, every rule body starts with e(V), :lt(V, 3), so that every mention of an IDB predicate comes
// after a built-in atom.
var c03BuiltinFirst bool

// c03Label names predicate i in reports (with its arity when names are shared).
func c03Label(i int) string {
	if c03Arity[i] != 1 || c03Names[0] == c03Names[1] {
		return fmt.Sprintf("%s/%d", c03Names[i], c03Arity[i])
	}
	return c03Names[i]
}

// c03Args repeats t as often as predicate i has arguments.
func c03Args(i int, t ast.BaseTerm) []ast.BaseTerm {
	out := make([]ast.BaseTerm, c03Arity[i])
	for k := range out {
		out[k] = t
	}
	return out
}

// c03Overloaded runs f with the predicates named p/1, p/2, p/3, p/4.
func c03Overloaded(f func()) {
	n, a := c03Names, c03Arity
	c03Names, c03Arity = []string{"p", "p", "p", "p"}, []int{1, 2, 3, 4}
	defer func() { c03Names, c03Arity = n, a }()
	f()
}

// c03Program builds analysis.Program for the labelled graph g (n x n, row = head).
func c03Program(n int, g []int) analysis.Program {
	v := ast.Variable{Symbol: "V"}
	e := ast.PredicateSym{Symbol: "e", Arity: 1}
	prog := analysis.Program{
		EdbPredicates: map[ast.PredicateSym]struct{}{e: {}},
		IdbPredicates: map[ast.PredicateSym]struct{}{},
	}
	iv := ast.NewInterval(ast.NewVariableBound(ast.Variable{Symbol: "S"}), ast.NewVariableBound(ast.Variable{Symbol: "E"}))
	for u := 0; u < n; u++ {
		prog.IdbPredicates[c03Sym(u)] = struct{}{}
		body := []ast.Term{ast.Atom{Predicate: e, Args: []ast.BaseTerm{v}}}
		if c03BuiltinFirst {
			body = append(body, ast.Atom{Predicate: ast.PredicateSym{Symbol: ":lt", Arity: 2}, Args: []ast.BaseTerm{v, ast.Number(3)}})
		}
		for w := 0; w < n; w++ {
			at := ast.Atom{Predicate: c03Sym(w), Args: c03Args(w, v)}
			switch g[u*n+w] {
			case lPos:
				body = append(body, at)
			case lNeg:
				body = append(body, ast.NegAtom{Atom: at})
			case lPosNeg:
				body = append(body, at, ast.NegAtom{Atom: at})
			case lNegPos:
				body = append(body, ast.NegAtom{Atom: at}, at)
			case lTPos:
				body = append(body, ast.TemporalLiteral{Literal: at, Interval: &iv})
			case lTNeg:
				body = append(body, ast.TemporalLiteral{Literal: ast.NegAtom{Atom: at}, Interval: &iv})
			case lAgg, lTAgg:
				c := ast.Variable{Symbol: "C"}
				var at ast.Term = at
				if g[u*n+w] == lTAgg {
					at = ast.TemporalLiteral{Literal: at.(ast.Atom), Interval: &iv}
				}
				tr := &ast.Transform{Statements: []ast.TransformStmt{
					{Var: nil, Fn: ast.ApplyFn{Function: ast.FunctionSym{Symbol: "fn:group_by", Arity: 0}}},
					{Var: &c, Fn: ast.ApplyFn{Function: ast.FunctionSym{Symbol: "fn:count", Arity: 0}}},
				}}
				prog.Rules = append(prog.Rules, ast.Clause{Head: ast.Atom{Predicate: c03Sym(u), Args: c03Args(u, c)}, Premises: []ast.Term{at}, Transform: tr})
			}
		}
		prog.Rules = append(prog.Rules, ast.Clause{Head: ast.Atom{Predicate: c03Sym(u), Args: c03Args(u, v)}, Premises: body})
	}
	return prog
}

// c03Source renders the graph as source text (temporal labels need temporal declarations).
func c03Source(n int, g []int) string {
	var sb strings.Builder
	sb.WriteString("Decl e(V).\n")
	temporal := make([]bool, n)
	for u := 0; u < n; u++ {
		for w := 0; w < n; w++ {
			if g[u*n+w] == lTPos || g[u*n+w] == lTNeg || g[u*n+w] == lTAgg {
				temporal[w] = true
			}
		}
	}
	for u := 0; u < n; u++ {
		body := []string{"e(V)"}
		for w := 0; w < n; w++ {
			at := c03Names[w] + "(V)"
			switch g[u*n+w] {
			case lPos:
				if temporal[w] {
					at += "@[_,_]"
				}
				body = append(body, at)
			case lNeg:
				body = append(body, "!"+at)
			case lPosNeg:
				body = append(body, at, "!"+at)
			case lNegPos:
				body = append(body, "!"+at, at)
			case lTPos:
				body = append(body, at+"@[S"+c03Names[w]+",E"+c03Names[w]+"]")
			case lTNeg:
				body = append(body, "!"+at+"@[_,_]")
			case lAgg:
				fmt.Fprintf(&sb, "%s(C) :- %s |> do fn:group_by(), let C = fn:count().\n", c03Names[u], at)
			case lTAgg:
				fmt.Fprintf(&sb, "%s(C) :- %s@[S%s,E%s] |> do fn:group_by(), let C = fn:count().\n", c03Names[u], at, c03Names[w], c03Names[w])
			}
		}
		head := c03Names[u] + "(V)"
		if temporal[u] {
			head += "@[now]"
		}
		fmt.Fprintf(&sb, "%s :- %s.\n", head, strings.Join(body, ", "))
	}
	return sb.String()
}

func graphString(n int, g []int) string {
	var parts []string
	for u := 0; u < n; u++ {
		for w := 0; w < n; w++ {
			if g[u*n+w] != lAbsent {
				parts = append(parts, fmt.Sprintf("%s-%s->%s", c03Label(u), labelNames[g[u*n+w]], c03Label(w)))
			}
		}
	}
	return strings.Join(parts, " ")
}

// c03Oracle: reachability closure; returns (mustFail, reach).
func c03Oracle(n int, g []int) (bool, [][]bool) {
	reach := make([][]bool, n)
	for i := range reach {
		reach[i] = make([]bool, n)
		for j := 0; j < n; j++ {
			reach[i][j] = g[i*n+j] != lAbsent
		}
	}
	for k := 0; k < n; k++ {
		for i := 0; i < n; i++ {
			for j := 0; j < n; j++ {
				if reach[i][k] && reach[k][j] {
					reach[i][j] = true
				}
			}
		}
	}
	fail := false
	for u := 0; u < n; u++ {
		for w := 0; w < n; w++ {
			l := g[u*n+w]
			if (l == lNeg || l == lAgg || l == lTNeg || l == lPosNeg || l == lNegPos || l == lTAgg) && (u == w || reach[w][u]) {
				fail = true
			}
		}
	}
	return fail, reach
}

// c03Check validates the result of Stratify for graph g; returns "" or a violation kind+detail.
func c03Check(n int, g []int, strata []analysis.Nodeset, p2s map[ast.PredicateSym]int, err error) (string, string) {
	mustFail, reach := c03Oracle(n, g)
	if err != nil {
		if !mustFail {
			return "spurious-failure", "Stratify failed although no dependency cycle passes through a negated/aggregated mention: " + err.Error()
		}
		return "", ""
	}
	if mustFail {
		return "unstratifiable-accepted", "Stratify returned layers although a cycle passes through a negated or aggregated mention"
	}
	layer := map[int]int{}
	for li, s := range strata {
		if len(s) == 0 {
			return "empty-layer", fmt.Sprintf("layer %d is empty", li)
		}
		for sym := range s {
			idx := -1
			for i := 0; i < n; i++ {
				if c03Sym(i) == sym {
					idx = i
				}
			}
			if idx < 0 {
				return "foreign-node", fmt.Sprintf("layer %d holds %v which is not an IDB predicate of the program", li, sym)
			}
			if _, dup := layer[idx]; dup {
				return "node-in-two-layers", fmt.Sprintf("%v appears in two layers", sym)
			}
			layer[idx] = li
			if p2s[sym] != li {
				return "map-disagrees", fmt.Sprintf("predToStratum[%v]=%d but it is in layer %d", sym, p2s[sym], li)
			}
		}
	}
	for i := 0; i < n; i++ {
		if _, ok := layer[i]; !ok {
			return "node-missing", fmt.Sprintf("%v is in no layer", c03Sym(i))
		}
	}
	if len(p2s) != n {
		return "map-disagrees", fmt.Sprintf("predToStratum has %d entries for %d predicates", len(p2s), n)
	}
	for u := 0; u < n; u++ {
		for w := 0; w < n; w++ {
			l := g[u*n+w]
			if l == lAbsent {
				continue
			}
			strict := l == lNeg || l == lAgg || l == lTNeg || l == lPosNeg || l == lNegPos || l == lTAgg
			kindSuffix := ""
			if l == lTPos || l == lTNeg || l == lTAgg {
				kindSuffix = "-temporal"
			}
			if layer[w] > layer[u] {
				return "body-after-head" + kindSuffix, fmt.Sprintf("%s is mentioned (%s) in a rule for %s but lies in a later layer (%d > %d)", c03Label(w), labelNames[l], c03Label(u), layer[w], layer[u])
			}
			if strict && layer[w] >= layer[u] {
				return "negated-not-strictly-earlier" + kindSuffix, fmt.Sprintf("%s is mentioned (%s) by %s but is not in a strictly earlier layer", c03Label(w), labelNames[l], c03Label(u))
			}
			if reach[u][w] && reach[w][u] && layer[u] != layer[w] {
				return "scc-split", fmt.Sprintf("%s and %s are mutually recursive but in different layers", c03Label(u), c03Label(w))
			}
		}
	}
	return "", ""
}

func decodeGraph(code, n, labels int, alphabet []int) []int {
	g := make([]int, n*n)
	for i := range g {
		g[i] = alphabet[code%labels]
		code /= labels
	}
	return g
}

func c03(r *rt.Run) {
	r.Assumptions = []string{
		"oracle: Floyd-Warshall reachability on the labelled dependency graph; temporal mentions count like plain ones",
		"graphs over n=3 (all labels) and n=4 (reduced labels) IDB predicates, one EDB predicate; built directly as analysis.Program and, for n=3, also through parse+Analyze",
		"map iteration order inside Stratify is owned by the explorer in a second pass (vmap build, worker processes): default = keys sorted by printed form; 4 global modes and every single deviation",
	}
	if r.Replay != "" {
		_, w := rt.ReadReplay(r.Replay)
		var g []int
		for _, x := range w["graph"].([]any) {
			g = append(g, int(x.(float64)))
		}
		n := int(w["n"].(float64))
		c03One(r, n, g, true)
		r.Finish("replay")
	}
	r.SetBudget(200*time.Second, 2400*time.Second)
	type space struct {
		n        int
		alphabet []int
		text     bool
	}
	spaces := []space{{3, []int{lAbsent, lPos, lNeg, lAgg, lTPos, lPosNeg}, true}}
	if r.Thorough() {
		spaces = []space{{3, []int{lAbsent, lPos, lNeg, lAgg, lTPos, lTNeg, lPosNeg}, true}, {3, []int{lAbsent, lPos, lNeg, lNegPos, lPosNeg}, true}, {4, []int{lAbsent, lPos, lNeg}, false}, {4, []int{lAbsent, lPos, lAgg}, false}, {4, []int{lAbsent, lTPos, lTNeg}, false}}
		spaces = append(spaces, space{3, []int{lAbsent, lPos, lNeg, lTAgg}, true}, space{4, []int{lAbsent, lPos, lTAgg}, false})
	} else {
		spaces = append(spaces, space{4, []int{lAbsent, lPos, lNeg}, false}, space{3, []int{lAbsent, lPos, lTAgg}, true})
	}
	for _, sp := range spaces {
		total := 1
		for i := 0; i < sp.n*sp.n; i++ {
			total *= len(sp.alphabet)
		}
		stride := 1
		chunks := 4096
		rt.ForRange(chunks, func(ci int) {
			if r.Expired("C03 graph enumeration") {
				return
			}
			for code := ci * stride; code < total; code += chunks * stride {
				g := decodeGraph(code, sp.n, len(sp.alphabet), sp.alphabet)
				if !canonicalGraph(sp.n, g) {
					continue // an isomorphic copy (predicates renamed) is enumerated instead
				}
				c03One(r, sp.n, g, sp.text && code%61 == 0)
			}
		})
	}
	// the same graphs with predicates that share one name and differ in arity only (p/1, p/2, p/3): what identifies a
	// predicate is name and arity together
	c03Overloaded(func() {
		sp := spaces[0]
		total := 1
		for i := 0; i < sp.n*sp.n; i++ {
			total *= len(sp.alphabet)
		}
		chunks := 4096
		rt.ForRange(chunks, func(ci int) {
			if r.Expired("C03 graph enumeration (overloaded names)") {
				return
			}
			for code := ci; code < total; code += chunks {
				g := decodeGraph(code, sp.n, len(sp.alphabet), sp.alphabet)
				if !canonicalGraph(sp.n, g) {
					continue
				}
				c03One(r, sp.n, g, false)
			}
		})
	})
	// and with a built-in atom in front of every mention (a comparison early in the body must not hide what follows it)
	func() {
		c03BuiltinFirst = true
		defer func() { c03BuiltinFirst = false }()
		sp := spaces[0]
		total := 1
		for i := 0; i < sp.n*sp.n; i++ {
			total *= len(sp.alphabet)
		}
		chunks := 4096
		rt.ForRange(chunks, func(ci int) {
			if r.Expired("C03 graph enumeration (built-in atom first)") {
				return
			}
			for code := ci; code < total; code += chunks {
				g := decodeGraph(code, sp.n, len(sp.alphabet), sp.alphabet)
				if !canonicalGraph(sp.n, g) {
					continue
				}
				c03One(r, sp.n, g, false)
			}
		})
	}()
	c03MapOrder(r)
	r.Finish("the first space again with a built-in atom in front of every mention, and with predicates that share one name and differ in arity only (p/1, p/2, p/3); every labelled dependency graph over 3 IDB predicates (labels absent/pos/neg/agg/temporal-pos/pos+neg[/temporal-neg/neg+pos]; a space with aggregation over a temporally annotated mention) and over 4 (reduced labels), up to renaming of predicates (only the lexicographically least relabelling is run), as analysis.Program and (a 1/61 slice of n=3) as source text through parse+Analyze; plus the map-iteration-order exploration of Stratify on all labelled 3-predicate graphs (see map_order_exploration); " +
		"non-trivial = graph has a cycle or a negative/aggregating/temporal edge; distinct by construction")
}

func c03One(r *rt.Run, n int, g []int, text bool) {
	w := map[string]any{"n": n, "graph": g, "edges": graphString(n, g)}
	var strata []analysis.Nodeset
	var p2s map[ast.PredicateSym]int
	var err error
	pv, st := rt.Try(func() { strata, p2s, err = analysis.Stratify(c03Program(n, g)) })
	r.Add("states", 1)
	r.Add("transitions", 1)
	r.Add("evaluations", 1)
	r.Add("traces_validated_against_impl", 1)
	mustFail, reach := c03Oracle(n, g)
	nt := mustFail
	for i := 0; i < n && !nt; i++ {
		if reach[i][i] {
			nt = true
		}
	}
	for _, l := range g {
		if l >= lNeg {
			nt = true
		}
	}
	if nt {
		r.Add("distinct_nontrivial", 1)
	}
	if err != nil {
		r.Add("graphs_reported_unstratifiable", 1)
	}
	if pv != nil {
		r.Violate("panic", fmt.Sprintf("%v at %s", pv, rt.ShortStack(st)), w)
		return
	}
	if r.SampleN() < 5 && nt && err == nil && len(strata) == n {
		var ls []string
		for _, s := range strata {
			var names []string
			for sym := range s {
				names = append(names, sym.Symbol)
			}
			sort.Strings(names)
			ls = append(ls, strings.Join(names, ","))
		}
		r.Sample(map[string]any{"edges": graphString(n, g), "layers": ls})
	}
	if err != nil {
		r.Outcome("fail")
	} else {
		r.Outcome(fmt.Sprint(len(strata)))
	}
	if kind, detail := c03Check(n, g, strata, p2s, err); kind != "" {
		r.Violate(kind, detail+" ["+graphString(n, g)+"]", w)
	}
	if !text {
		return
	}
	// public path: source text -> parse -> Analyze -> Stratify
	src := c03Source(n, g)
	w2 := map[string]any{"n": n, "graph": g, "edges": graphString(n, g), "source": src}
	pv, st = rt.Try(func() {
		pi, aerr := mg.Analyze(src)
		if aerr != nil {
			r.Add("text_path_rejected_by_analysis", 1)
			return
		}
		r.Add("text_path_cases", 1)
		strata, p2s, err := analysis.Stratify(analysis.Program{EdbPredicates: pi.EdbPredicates, IdbPredicates: pi.IdbPredicates, Rules: pi.Rules})
		if kind, detail := c03Check(n, g, strata, p2s, err); kind != "" {
			r.Violate("text-"+kind, detail+" ["+graphString(n, g)+"]", w2)
		}
	})
	if pv != nil {
		r.Violate("panic", fmt.Sprintf("%v at %s", pv, rt.ShortStack(st)), w2)
	}
}

var permCache = map[int][][]int{}

func init() { permCache[3] = permutations(3); permCache[4] = permutations(4) }

// canonicalGraph reports whether g is the lexicographically smallest among its relabellings.
func canonicalGraph(n int, g []int) bool {
	for _, p := range permCache[n] {
		// h[p[u]*n+p[w]] = g[u*n+w]; compare h with g lexicographically
		less := false
		for i := 0; i < n*n && !less; i++ {
			// h[i]: find u,w with p[u]*n+p[w] == i
			pu, pw := i/n, i%n
			u, w := -1, -1
			for k := 0; k < n; k++ {
				if p[k] == pu {
					u = k
				}
				if p[k] == pw {
					w = k
				}
			}
			hv := g[u*n+w]
			if hv < g[i] {
				less = true
			} else if hv > g[i] {
				break
			}
		}
		if less {
			return false
		}
	}
	return true
}
