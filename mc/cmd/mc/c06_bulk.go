package main

import (
	"fmt"
	"sort"

	"codeberg.org/TauCeti/mangle-go/ast"
	"codeberg.org/TauCeti/mangle-go/factstore"

	"verifmc/rt"
)

// Size dimension of C06: histories that are long in the number of distinct atoms rather than in the number of
// operation kinds. Every store construction receives n distinct atoms in one of three layouts (one wide
// relation, many small relations, a binary relation over names), and after EVERY Add the return value is
// judged; membership of every atom, every all-variable query, the count and the predicate list are judged
// at the sizes in c06BulkProbe and at the end; then every atom is re-added (must report false), a second
// store of the same construction receives the same atoms by one Merge, and (where supported) every other
// atom is removed. The atoms have pairwise different Atom.Hash() (checked), so the hash-keyed stores' known
// conflation (F8) plays no part here.
var c06BulkProbe = map[int]bool{1: true, 2: true, 64: true, 999: true, 1000: true, 1001: true, 1024: true, 1025: true}

func c06BulkAtoms(layout string, n int) []ast.Atom {
	var out []ast.Atom
	for i := 0; i < n; i++ {
		switch layout {
		case "one-relation":
			out = append(out, ast.NewAtom("item", ast.Number(int64(i))))
		case "many-relations":
			c, _ := ast.Name(fmt.Sprintf("/c/%d", i/50))
			out = append(out, ast.NewAtom(fmt.Sprintf("rel%d", i%50), c))
		case "binary-names":
			a, _ := ast.Name(fmt.Sprintf("/n/%d", i%37))
			out = append(out, ast.NewAtom("edge", a, ast.String(fmt.Sprintf("s%d", i/37))))
		}
	}
	return out
}

func c06Bulk(r *rt.Run) {
	sizes := []int{1100}
	if r.Thorough() {
		sizes = []int{1100, 2100, 4200}
	}
	layouts := []string{"one-relation", "many-relations", "binary-names"}
	type job struct {
		kind, layout string
		n            int
	}
	var jobs []job
	for _, k := range c06Kinds {
		for _, l := range layouts {
			for _, n := range sizes {
				jobs = append(jobs, job{k, l, n})
			}
		}
	}
	r.Extra["bulk_histories"] = len(jobs)
	rt.ForRange(len(jobs), func(i int) {
		j := jobs[i]
		w := map[string]any{"family": "bulk", "store": j.kind, "layout": j.layout, "n": j.n}
		var kindV, detail string
		pv, stk := rt.Try(func() { kindV, detail = c06BulkRun(r, j.kind, j.layout, j.n) })
		if pv != nil {
			r.Violate("panic", fmt.Sprintf("[%s bulk %s n=%d] %v at %s", j.kind, j.layout, j.n, pv, rt.ShortStack(stk)), w)
			return
		}
		r.Outcome("bulk:" + kindV)
		if kindV != "" {
			r.Violate(kindV, fmt.Sprintf("[%s bulk %s n=%d] %s", j.kind, j.layout, j.n, detail), w)
		}
	})
}

func c06BulkRun(r *rt.Run, kind, layout string, n int) (string, string) {
	atoms := c06BulkAtoms(layout, n)
	hashes := map[uint64]bool{}
	for _, a := range atoms {
		if hashes[a.Hash()] {
			panic("bulk atoms are not hash-distinct: " + a.String())
		}
		hashes[a.Hash()] = true
	}
	// base atoms of the wrappers use other predicates
	base := mustAtoms("zbase(1)", "zbase(2)")
	st := c06New(kind, base)
	nbase := 0
	if c06HasBase(kind) {
		nbase = len(base)
	}
	observe := func(s factstore.FactStore, exact bool, present []ast.Atom, absent []ast.Atom, what string) (string, string) {
		byPred := map[ast.PredicateSym]map[string]int{}
		for _, a := range present {
			if !s.Contains(a) {
				return "contains-false-for-stored", fmt.Sprintf("%s: Contains(%v) = false for a stored atom (%d stored)", what, a, len(present))
			}
			if byPred[a.Predicate] == nil {
				byPred[a.Predicate] = map[string]int{}
			}
			byPred[a.Predicate][structKey(a)] = 0
		}
		for _, a := range absent {
			if s.Contains(a) {
				return "contains-true-for-absent", fmt.Sprintf("%s: Contains(%v) = true for an atom that is not stored", what, a)
			}
		}
		listed := map[ast.PredicateSym]bool{}
		for _, p := range s.ListPredicates() {
			listed[p] = true
		}
		var preds []ast.PredicateSym
		for p := range byPred {
			preds = append(preds, p)
		}
		sort.Slice(preds, func(i, j int) bool { return preds[i].Symbol < preds[j].Symbol })
		for _, p := range preds {
			if !listed[p] {
				return "predicate-not-listed", fmt.Sprintf("%s: ListPredicates lacks %v which has %d stored atoms", what, p, len(byPred[p]))
			}
			m := byPred[p]
			var bad string
			s.GetFacts(ast.NewQuery(p), func(a ast.Atom) error {
				k := structKey(a)
				c, ok := m[k]
				if !ok && bad == "" {
					bad = fmt.Sprintf("%s: GetFacts(%v) delivered %v which is not stored", what, ast.NewQuery(p), a)
				}
				m[k] = c + 1
				return nil
			})
			if bad != "" {
				return "getfacts-extra", bad
			}
			for k, c := range m {
				if c != 1 {
					return "getfacts-multiplicity", fmt.Sprintf("%s: GetFacts(%v) delivered stored atom %s %d times (%d stored)", what, ast.NewQuery(p), k, c, len(present))
				}
			}
		}
		r.Add("bulk_observations", 1)
		if exact {
			if got := s.EstimateFactCount(); got != len(present)+nbase {
				return "count-wrong", fmt.Sprintf("%s: EstimateFactCount = %d with %d stored atoms", what, got, len(present)+nbase)
			}
		}
		return "", ""
	}
	for i, a := range atoms {
		r.Add("transitions", 1)
		if !st.s.Add(a) {
			return "add-false-for-absent", fmt.Sprintf("Add #%d (%v) = false for an absent atom (%d atoms stored so far)", i+1, a, i)
		}
		if c06BulkProbe[i+1] || i+1 == n {
			if k, d := observe(st.s, st.exact, atoms[:i+1], atoms[i+1:min(n, i+40)], fmt.Sprintf("after %d Adds", i+1)); k != "" {
				return k, d
			}
		}
	}
	r.Add("states", 1)
	r.Add("evaluations", 1)
	r.Add("traces_validated_against_impl", 1)
	r.Add("distinct_nontrivial", 1)
	for i, a := range atoms {
		if st.s.Add(a) {
			return "add-true-for-present", fmt.Sprintf("second Add of #%d (%v) = true", i+1, a)
		}
	}
	if k, d := observe(st.s, st.exact, atoms, nil, "after re-adding every atom"); k != "" {
		return k, d
	}
	// one Merge of a store holding the same atoms (from a different construction) into a fresh store
	src := factstore.NewMultiIndexedArrayInMemoryStore()
	for _, a := range atoms {
		src.Add(a)
	}
	st2 := c06New(kind, base)
	st2.s.Merge(src)
	r.Add("transitions", 1)
	if k, d := observe(st2.s, st2.exact, atoms, nil, fmt.Sprintf("after Merge of a store with %d atoms", n)); k != "" {
		return k, d
	}
	// and the other way round: the store as the source of a Merge
	dst := factstore.NewMultiIndexedArrayInMemoryStore()
	dst.Merge(st.s)
	r.Add("transitions", 1)
	nb := nbase
	nbase = 0
	var withBase []ast.Atom
	withBase = append(withBase, atoms...)
	if nb > 0 {
		withBase = append(withBase, base...)
	}
	if k, d := observe(dst, true, withBase, nil, fmt.Sprintf("a store that received Merge(this store with %d atoms)", n)); k != "" {
		return k, d
	}
	nbase = nb
	if st.hasRemove {
		rm := st.s.(factstore.FactStoreWithRemove)
		var kept, gone []ast.Atom
		for i, a := range atoms {
			if i%2 == 0 {
				r.Add("transitions", 1)
				if !rm.Remove(a) {
					return "remove-false-for-present", fmt.Sprintf("Remove(%v) = false for a stored atom", a)
				}
				gone = append(gone, a)
			} else {
				kept = append(kept, a)
			}
		}
		if k, d := observe(st.s, st.exact, kept, gone, "after removing every other atom"); k != "" {
			return k, d
		}
	}
	return "", ""
}
