package main

import (
	"fmt"
	"os"
	"path/filepath"
	"time"

	"verifmc/rt"
)

// c03Spaces for the map-order exploration: ALL labelled graphs (no reduction up to renaming: the canonical
// iteration order of the instrumented build depends on predicate names).
const c03MapChunks = 512

// c03MapOrder runs analysis.Stratify under an explorer-owned map iteration order. The cases run in worker
// processes of the vmap build (bin/mcv; the iteration policy is process-global).
func c03MapOrder(r *rt.Run) {
	exe := filepath.Join(rt.OutDir, "bin", "mcv")
	if _, err := os.Stat(exe); err != nil {
		fmt.Fprintf(os.Stderr, "harness error: %s is missing (run ./check setup or ./check C03 ...)\n", exe)
		os.Exit(2)
	}
	rt.WorkerExe = exe
	defer func() { rt.WorkerExe = "" }()
	rt.ConfirmRuns = 1
	rt.RunSharded(r, c03MapChunks, []string{"C03", "worker", r.Tier}, 600*time.Second, 8000000, func(idx int, label, how string) {
		r.Violate("map-order-chunk-did-not-return", label+": "+how, map[string]any{"chunk": idx})
	})
	r.Extra["map_order_exploration"] = "vmap build: every range-over-map inside analysis.Stratify iterates in an order chosen by the explorer; for every labelled graph over 3 predicates (no renaming reduction) with labels {absent,pos,neg} (thorough: + agg): the 4 global modes and every single deviation (every offered alternative order at each dynamic range execution); with labels {absent,pos,neg,agg} (thorough: + temporal-pos; pos+neg, neg+pos, temporal-neg): the 4 global modes"
}
