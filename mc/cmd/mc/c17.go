package main

import (
	"errors"
	"fmt"
	"strings"
	"time"

	"codeberg.org/TauCeti/mangle-go/ast"
	"codeberg.org/TauCeti/mangle-go/engine"
	"codeberg.org/TauCeti/mangle-go/factstore"

	"verifmc/mg"
	"verifmc/oracle"
	"verifmc/rt"
)

func init() {
	register("C17", c17)
	workerFns["C17"] = c17Worker
}

type c17Shape struct {
	name  string
	rules string
	nrule int
	// diverges is set for shapes outside the reference fragment (merge predicates) whose divergence is known statically
	diverges bool
}

const c17MergeDecls = "Decl cost(K, V) descr [fundep([K], [V]), merge([V], \"minv\")].\nDecl minv(A, B, C) descr [mode('+', '+', '-'), deferred()].\nminv(A, B, C) :- A < B, C = A.\nminv(A, B, C) :- B <= A, C = B.\n"

const c17Decls = "Decl n0(A).\nDecl l0(A).\n"

var c17Shapes = []c17Shape{
	{"counter", "n(X) :- n0(X).\nn(Y) :- n(X), Y = fn:plus(X, 1).\n", 2, false},
	{"guarded-2", "n(X) :- n0(X).\nn(Y) :- n(X), X < 2, Y = fn:plus(X, 1).\n", 2, false},
	{"guarded-5", "n(X) :- n0(X).\nn(Y) :- n(X), X < 5, Y = fn:plus(X, 1).\n", 2, false},
	{"guarded-9", "n(X) :- n0(X).\nn(Y) :- n(X), X < 9, Y = fn:plus(X, 1).\n", 2, false},
	{"list-growth", "l(X) :- l0(X).\nl(Y) :- l(X), Y = fn:list:cons(1, X).\n", 2, false},
	{"list-guarded", "l(X) :- l0(X).\nl(Y) :- l(X), N = fn:list:len(X), N < 3, Y = fn:list:cons(1, X).\n", 2, false},
	{"pair-nesting", "m(X) :- n0(X).\nm(Y) :- m(X), Y = fn:pair(X, X).\n", 2, false},
	{"let-counter", "n(X) :- n0(X).\nn(Y) :- n(X) |> let Y = fn:plus(X, 1).\n", 2, false},
	{"let-guarded", "n(X) :- n0(X).\nn(Y) :- n(X), X < 4 |> let Y = fn:plus(X, 1).\n", 2, false},
	{"wide-join", "w(X,Y,Z) :- n0(X), n0(Y), n0(Z).\n", 1, false},
	{"wide-join-filtered", "w(X) :- n0(X), n0(Y), n0(Z), X < Y, Y < Z.\n", 1, false},
	{"below-negation", "big(X) :- n0(X).\nbig(Y) :- big(X), Y = fn:plus(X, 1).\nok(X) :- n0(X), !big(X).\n", 3, false},
	{"feeds-aggregation", "n(X) :- n0(X).\nn(Y) :- n(X), Y = fn:plus(X, 1).\nc(N) :- n(X) |> do fn:group_by(), let N = fn:count().\n", 3, false},
	{"guarded-feeds-aggregation", "n(X) :- n0(X).\nn(Y) :- n(X), X < 5, Y = fn:plus(X, 1).\nc(N) :- n(X) |> do fn:group_by(), let N = fn:count().\n", 3, false},
	{"doubling-wraps", "d(X) :- n0(X).\nd(Y) :- d(X), X > 0, Y = fn:mult(X, 2).\n", 2, false},
	{"product-of-guarded", "n(X) :- n0(X).\nn(Y) :- n(X), X < 3, Y = fn:plus(X, 1).\nk(X,Y) :- n(X), n(Y).\n", 3, false},
	{"mutual-counters", "a(X) :- n0(X).\na(Y) :- b(X), Y = fn:plus(X, 1).\nb(Y) :- a(X), Y = fn:plus(X, 1).\n", 3, false},
	{"mutual-guarded", "a(X) :- n0(X).\na(Y) :- b(X), X < 6, Y = fn:plus(X, 1).\nb(Y) :- a(X), X < 6, Y = fn:plus(X, 1).\n", 3, false},
	{"two-step", "n(X) :- n0(X).\nn(Y) :- n(X), Y = fn:plus(X, 2).\nn(Y) :- n(X), X < 4, Y = fn:plus(X, 1).\n", 3, false},
	{"fan-out", "f(X,Y) :- n0(X), n0(Y).\nf(X,Z) :- f(X,Y), Z = fn:plus(Y, 1).\n", 2, false},
	{"merge-predicate-new-key-each-round", c17MergeDecls + "cost(X, 0) :- n0(X).\ncost(Y, V) :- cost(X, W), Y = fn:plus(X, 1), V = fn:plus(W, 1).\n", 4, true},
	{"merge-predicate-two-step", c17MergeDecls + "cost(X, 0) :- n0(X).\ncost(Y, V) :- cost(X, W), Y = fn:plus(X, 2), V = fn:plus(W, 1).\ncost(Y, V) :- cost(X, W), Y = fn:plus(X, 3), V = fn:plus(W, 5).\n", 5, true},
	{"fan-out-guarded", "f(X,Y) :- n0(X), n0(Y).\nf(X,Z) :- f(X,Y), Y < 4, Z = fn:plus(Y, 1).\n", 2, false},
}

var c17Seeds = [][]string{{"n0(0)", "l0([])"}, {"n0(0)", "n0(1)", "l0([])"}, {"n0(0)", "n0(1)", "n0(2)", "l0([])", "l0([5])"}}
var c17Limits = []int{1, 2, 3, 4, 5, 6, 7, 8, 9, 10, 11, 12, 16, 32, 100}
var c17Stores = []string{"multiarray", "merged", "simple"}

type c17Case struct {
	diverges bool
	src      string
	nrules   int
	name     string
	seed     []string
	limit    int
	store    string
	opt      string // "", "temporal-empty", "temporal-3", "detorder": further evaluation options next to the limit
}

func c17Cases(thorough bool) []c17Case {
	var progs []c17Shape
	progs = append(progs, c17Shapes...)
	// pairs of shapes whose rule texts do not share a head predicate definition conflict: union of rules (duplicates removed)
	for i := 0; i < len(c17Shapes); i++ {
		for j := i + 1; j < len(c17Shapes); j++ {
			if !thorough && (i+j)%3 != 0 {
				continue
			}
			seen := map[string]bool{}
			var lines []string
			for _, l := range strings.Split(c17Shapes[i].rules+c17Shapes[j].rules, "\n") {
				if l != "" && !seen[l] {
					seen[l] = true
					lines = append(lines, l)
				}
			}
			progs = append(progs, c17Shape{c17Shapes[i].name + "+" + c17Shapes[j].name, strings.Join(lines, "\n") + "\n", len(lines), c17Shapes[i].diverges || c17Shapes[j].diverges})
		}
	}
	var out []c17Case
	// a base relation much larger than the limit: what one premise instance fans out to must be bounded as well
	var big []string
	for i := 0; i < 60; i++ {
		big = append(big, fmt.Sprintf("n0(%d)", i))
	}
	big = append(big, "l0([])")
	for _, p := range []c17Shape{
		{"copy-of-large-relation", "w(X) :- n0(X).\n", 1, false},
		{"filtered-copy-of-large-relation", "w(X) :- n0(X), X < 1000.\n", 1, false},
		{"two-step-copy", "v(X) :- n0(X).\nw(X) :- v(X).\n", 2, false},
		{"hub-and-spokes", "hs(Y) :- n0(0), n0(Y).\n", 1, false},
		{"hub-and-spokes-last-premise", "hs(X,Y) :- n0(X), X < 1, n0(Y).\n", 1, false},
		{"divergence-from-large-seed", "up(Y) :- n0(X), Y = fn:plus(X, 1000).\nup(Y) :- up(X), Y = fn:plus(X, 1000).\n", 2, false},
		{"let-copy-of-large-relation", "w(Y) :- n0(X) |> let Y = fn:plus(X, 1000).\n", 1, false},
		{"count-of-large-relation", "c(N) :- n0(X) |> do fn:group_by(), let N = fn:count().\n", 1, false},
		{"sum-per-key-of-large-relation", "s(K,N) :- n0(X), K = fn:div(X, 20) |> do fn:group_by(K), let N = fn:sum(X).\n", 1, false},
		{"sum-per-parity-single-atom", "g(X,N) :- n0(X) |> do fn:group_by(X), let N = fn:count().\n", 1, false},
		{"collect-of-large-relation", "c(L) :- n0(X) |> do fn:group_by(), let L = fn:collect_distinct(X).\n", 1, false},
	} {
		for _, l := range []int{1, 2, 3, 5, 8} {
			for _, st := range c17Stores[:2] {
				out = append(out, c17Case{p.diverges, c17Decls + p.rules, p.nrule, p.name, big, l, st, ""})
			}
			for _, o := range []string{"retry", "grow"} {
				out = append(out, c17Case{p.diverges, c17Decls + p.rules, p.nrule, p.name, big, l, "multiarray", o})
			}
		}
	}
	// the budget is used up (exactly, almost, just over) by an earlier stratum or by the facts in the program text,
	// and a later stratum joins the large relation: the limit binds every stratum, not only the first
	for _, l := range []int{1, 2, 3, 4, 5, 8} {
		for _, k := range []int{l - 1, l, l + 1} {
			if k < 1 {
				continue
			}
			seed := append([]string{}, big...)
			var facts string
			for i := 0; i < k; i++ {
				seed = append(seed, fmt.Sprintf("q0(%d)", i))
				facts += fmt.Sprintf("s(%d).\n", i)
			}
			for _, p := range []c17Shape{
				{fmt.Sprintf("stratum-of-%d-then-join-of-large-relation", k), "s(X) :- q0(X).\nj(X,Y,Z) :- s(X), n0(Y), n0(Z).\n", 2, false},
				{fmt.Sprintf("two-strata-of-%d-then-join-of-large-relation", k), "s(X) :- q0(X).\nt(X) :- s(X), !n0(X).\nj(Y,Z) :- n0(Y), n0(Z), !t(Y).\n", 3, false},
				{fmt.Sprintf("%d-program-facts-then-join-of-large-relation", k), facts + "j(X,Y,Z) :- s(X), n0(Y), n0(Z).\n", 1 + k, false},
				{fmt.Sprintf("stratum-of-%d-then-divergence", k), "s(X) :- q0(X).\nup(Y) :- s(X), Y = fn:plus(X, 1000).\nup(Y) :- up(X), Y = fn:plus(X, 1000).\n", 3, false},
			} {
				for _, st := range c17Stores[:2] {
					out = append(out, c17Case{p.diverges, c17Decls + "Decl q0(A).\n" + p.rules, p.nrule, p.name, seed, l, st, ""})
				}
			}
		}
	}
	for _, p := range progs {
		for _, seed := range c17Seeds {
			for _, l := range c17Limits {
				for si, st := range c17Stores {
					if !thorough && si == 2 {
						continue
					}
					out = append(out, c17Case{p.diverges, c17Decls + p.rules, p.nrule, p.name, seed, l, st, ""})
				}
				// a second evaluation of the same store (after a limit error; after more base facts arrived)
				if !strings.Contains(p.name, "+") && (l == 1 || l == 3 || l == 8) {
					for _, o := range []string{"retry", "grow"} {
						out = append(out, c17Case{p.diverges, c17Decls + p.rules, p.nrule, p.name, seed, l, "multiarray", o})
					}
				}
				// the limit must hold whatever else is configured: single shapes also with a temporal store
				// (empty / holding three facts) and with deterministic order
				if !strings.Contains(p.name, "+") {
					for _, o := range []string{"temporal-empty", "temporal-3", "detorder"} {
						out = append(out, c17Case{p.diverges, c17Decls + p.rules, p.nrule, p.name, seed, l, "multiarray", o})
					}
				}
			}
		}
	}
	return out
}

func c17Worker(tier string, shard, of, from int) {
	cases := c17Cases(tier == "thorough")
	rt.WorkerMain(shard, of, from, len(cases),
		func(i int) string {
			c := cases[i]
			return fmt.Sprintf("%s seed=%v limit=%d store=%s opt=%s", c.name, c.seed, c.limit, c.store, c.opt)
		},
		func(i int) rt.CaseResult { return c17Run(cases[i]) })
}

func c17Run(c c17Case) rt.CaseResult {
	res := rt.CaseResult{Counters: map[string]int64{"states": 1, "evaluations": 1, "transitions": 1}}
	w := map[string]any{"program": c.name, "source": c.src, "seed": c.seed, "limit": c.limit, "store": c.store, "opt": c.opt}
	viol := func(kind, detail string) {
		res.Violations = append(res.Violations, rt.Violation{Kind: kind, Detail: fmt.Sprintf("[%s seed=%v limit=%d store=%s opt=%s] %s", c.name, c.seed, c.limit, c.store, c.opt, detail), Witness: w})
	}
	pp := prepare(c.src)
	if pp.err != nil || pp.panicV != nil {
		res.Counters["programs_rejected"] = 1
		return res
	}
	edb, err := mg.ParseAtoms(c.seed)
	if err != nil {
		panic(err)
	}
	// evaluate list syntax in seeds
	edb = evalGround(c.seed)
	var ref *oracle.Result
	var rerr error
	if c.diverges {
		rerr = oracle.ErrDiverged // statically known (merge predicates are outside the reference fragment)
	} else {
		ref, rerr = oracle.Eval(pp.clauses, edb, oracle.Config{MaxRounds: 80, MaxFacts: 1500})
	}
	converges := rerr == nil
	if rerr != nil && !errors.Is(rerr, oracle.ErrDiverged) {
		if errors.Is(rerr, oracle.ErrUnsupported) {
			res.Counters["outside_reference_fragment"] = 1
			return res
		}
		panic(fmt.Sprintf("oracle: %v on %s", rerr, c.src))
	}
	store := mg.NewStoreWithEDB(c.store, edb)
	var everr error
	// "retry": an evaluation under the case's limit comes first (its outcome is not judged here; it is a case of its
	// own), then the same store is evaluated again under a limit of 1000 — what a caller does after a limit error.
	// "grow": the first evaluation sees only the first half of the base facts, the rest arrive before the second.
	// Either way the second evaluation starts from a store that already holds some of what it derives.
	lim := c.limit
	switch c.opt {
	case "retry":
		if pv, st := rt.Try(func() { mg.Eval(pp.pi, store, engine.WithCreatedFactLimit(c.limit)) }); pv != nil {
			viol("panic", fmt.Sprintf("first evaluation: %v at %s", pv, rt.ShortStack(st)))
			return res
		}
		lim = 1000
		if !converges {
			lim = c.limit + 10 // diverging shapes grow their terms with every round: keep the second run short
		}
	case "grow":
		half := mg.NewStoreWithEDB(c.store, edb[:len(edb)/2])
		firstLimit := 1000
		if !converges {
			firstLimit = c.limit + 10 // diverging shapes grow their terms with every round: keep the first run short
		}
		if pv, st := rt.Try(func() { mg.Eval(pp.pi, half, engine.WithCreatedFactLimit(firstLimit)) }); pv != nil {
			viol("panic", fmt.Sprintf("first evaluation: %v at %s", pv, rt.ShortStack(st)))
			return res
		}
		for _, a := range edb[len(edb)/2:] {
			half.Add(a)
		}
		store = half
	}
	before := store.EstimateFactCount()
	opts := []engine.EvalOption{engine.WithCreatedFactLimit(lim)}
	switch c.opt {
	case "temporal-empty":
		opts = append(opts, engine.WithTemporalStore(factstore.NewTemporalStore()))
	case "temporal-3":
		ts := factstore.NewTemporalStore()
		for i := int64(1); i <= 3; i++ {
			ts.Add(ast.NewAtom("tmp", ast.Number(i)), ast.NewInterval(ast.NewTimestampBound(time.Unix(i, 0)), ast.NewTimestampBound(time.Unix(i+5, 0))))
		}
		opts = append(opts, engine.WithTemporalStore(ts))
	case "detorder":
		opts = append(opts, engine.WithDeterministicOrder())
	}
	pv, st := rt.Try(func() { everr = mg.Eval(pp.pi, store, opts...) })
	res.Counters["traces_validated_against_impl"] = 1
	if pv != nil {
		viol("panic", fmt.Sprintf("%v at %s", pv, rt.ShortStack(st)))
		return res
	}
	// count facts without building canonical keys: diverging programs hold terms whose printed size is exponential
	nAtoms := 0
	for _, a := range mg.Atoms(store) {
		if !strings.HasSuffix(a.Predicate.Symbol, "__tmp") {
			nAtoms++
		}
	}
	created := nAtoms - len(edb)
	var got []string
	if converges && everr == nil {
		got = aggCanon(mg.Atoms(store)) // collected lists are compared as multisets
	}
	bound := 4*(lim+1)*(c.nrules+1) + 8
	if c.opt == "retry" || c.opt == "grow" {
		bound += 4*(c.limit+1)*(c.nrules+1) + 1008 // what the first evaluation may have left
	}
	if created > bound {
		viol("growth-not-bounded", fmt.Sprintf("evaluation created %d facts with limit %d (bound used: 4*(L+1)*(rules+1)+8 = %d); store estimate before=%d after=%d", created, lim, bound, before, store.EstimateFactCount()))
	}
	switch {
	case !converges && everr == nil:
		// a hash-keyed store refuses a new fact whose Atom.Hash() equals that of a different stored fact (C06's finding
		// F8); the fixpoint then "closes" early. Attributed only when one more step of the reference from the final facts
		// derives a fact with the hash of a structurally different final fact.
		if c.store == "simple" {
			final := mg.Atoms(store)
			byHash := map[uint64]ast.Atom{}
			for _, a := range final {
				byHash[a.Hash()] = a
			}
			// one round of the reference's immediate-consequence step per stratum from the final facts
			var nextAtoms []ast.Atom
			if !c.diverges {
				if one, _ := oracle.Eval(pp.clauses, final, oracle.Config{MaxRounds: 1, MaxFacts: 100000}); one != nil {
					nextAtoms = one.DB.Atoms()
				}
			}
			var pairs []string
			for _, a := range nextAtoms {
				if b, ok := byHash[a.Hash()]; ok && !b.Equals(a) && b.Predicate == a.Predicate {
					pairs = append(pairs, a.String()+" ~ "+b.String())
				}
			}
			if len(pairs) > 0 {
				w["colliding"] = pairs
				res.Violations = append(res.Violations, rt.Violation{Kind: "missing-facts-hash-collision", Detail: fmt.Sprintf("[%s seed=%v limit=%d store=%s] the hash-keyed store refused a new fact with the hash of a different stored fact and evaluation closed early: %v", c.name, c.seed, c.limit, c.store, pairs), Witness: w})
				break
			}
		}
		viol("divergence-without-error", fmt.Sprintf("the program has an infinite model but evaluation returned nil after creating %d facts", created))
	case converges && everr == nil:
		want := aggCanon(ref.DB.Atoms())
		missing, extra := mg.Diff(want, got)
		if c.opt == "grow" {
			extra = nil // results of the first evaluation over fewer base facts (aggregates, negation) rightly stay in the store
		}
		if len(missing)+len(extra) > 0 {
			if pairs := hashCollisionPartners(ref.DB, missing); pairs != nil && len(extra) == 0 && (c.store == "simple") {
				w["colliding"] = pairs
				res.Violations = append(res.Violations, rt.Violation{Kind: "missing-facts-hash-collision", Detail: fmt.Sprintf("store lacks %s (hash collision %v)", mg.Short(missing), pairs), Witness: w})
			} else {
				viol("silent-partial-result", fmt.Sprintf("evaluation returned nil but the store is not the model: missing %s; unexpected %s", mg.Short(missing), mg.Short(extra)))
			}
		}
	}
	outcome := "error"
	if everr == nil {
		outcome = "nil"
	}
	if converges {
		outcome += "/converges"
		if ref.DB.Size()-len(edb) > lim {
			outcome += "-model-exceeds-limit"
		}
	} else {
		outcome += "/diverges"
		res.Counters["distinct_nontrivial"] = 1
	}
	if converges && everr != nil {
		res.Counters["converging_but_limit_error"] = 1
		if ref.DB.Size()-len(edb) <= lim {
			res.Counters["converging_within_limit_but_error(join width or round checks)"] = 1
		}
	}
	res.Outcome = fmt.Sprintf("%s created=%d", outcome, created)
	if c.limit == 5 && c.store == "multiarray" && len(c.seed) == 2 {
		res.Sample = map[string]any{"program": c.name, "limit": c.limit, "outcome": outcome, "created": created}
	}
	return res
}

func c17(r *rt.Run) {
	r.Assumptions = []string{
		"convergence is decided by the reference evaluator with caps (80 rounds / 1500 facts); pool D programs either converge well below the caps or grow without bound",
		"'bounded by a function of the limit and the program size' is instantiated as created <= 4*(L+1)*(rules+1)+8",
		"an error on a converging program (model larger than the limit, or a join wider than the limit) is correct behaviour and not an alarm",
		"each case runs in a killable worker process under ulimit -v; a case that does not answer within 20 s (normal: < 1 s) is re-run once alone before 'did not return' is reported; after 6 such cases the run stops early",
	}
	if r.Replay != "" {
		_, w := rt.ReadReplay(r.Replay)
		opt := ""
		if o, ok := w["opt"].(string); ok {
			opt = o
		}
		c := c17Case{strings.Contains(fmt.Sprint(w["source"]), "merge("), fmt.Sprint(w["source"]), 3, fmt.Sprint(w["program"]), toStrings(w["seed"]), int(w["limit"].(float64)), fmt.Sprint(w["store"]), opt}
		res := c17Run(c)
		for _, v := range res.Violations {
			r.Violate(v.Kind, v.Detail, v.Witness)
		}
		r.Finish("replay")
	}
	c17External(r)
	cases := c17Cases(r.Thorough())
	r.Extra["cases_enumerated"] = len(cases)
	rt.ConfirmRuns = 1
	rt.RunSharded(r, len(cases), []string{"C17", "worker", r.Tier}, 20*time.Second, 6000000, func(idx int, label, how string) {
		c := cases[idx]
		r.Violate("did-not-return", fmt.Sprintf("[%s] evaluation with a fact limit did not return: %s", label, how),
			map[string]any{"program": c.name, "source": c.src, "seed": c.seed, "limit": c.limit, "store": c.store, "opt": c.opt})
	})
	r.Finish("5 programs over an external relation (5 and 20 rows, 1-2 seeds) under every limit 1..30 against their unlimited evaluation; pool D: 21 program shapes (counters, guarded counters, list growth, pair nesting, let-transform counters, wide joins, divergence below negation / feeding aggregation, wrapping doubling, mutual counters, fan-out) and pairs of shapes, " +
		"x 3 seeds (and 11 fan-out / aggregation shapes over a 60-fact relation x limits {1,2,3,5,8}) x every limit in {1..12,16,32,100} x store kinds (exact count, over-estimating merged store), single shapes also x {temporal store configured (empty / 3 facts), deterministic order}; non-trivial = program with an infinite model; distinct by construction")
}
