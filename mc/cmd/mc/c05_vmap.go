//go:build vmap

package main

import (
	"fmt"
	"strings"
	"time"

	"codeberg.org/TauCeti/mangle-go/verifseam/vmap"

	"verifmc/mg"
	"verifmc/rt"
)

func init() { workerFns["C05"] = c05Worker }

func c05MapCorpus(thorough bool) []c05Prog {
	all := c05Corpus(thorough)
	var out []c05Prog
	for i, p := range all {
		if p.temporal || strings.HasPrefix(p.name, "A") || i%9 == 0 || strings.HasPrefix(p.name, "M") && i%3 == 0 || thorough && i%3 == 0 {
			out = append(out, p)
		}
	}
	return out
}

func c05Worker(tier string, shard, of, from int) {
	thorough := tier == "thorough"
	corpus := c05MapCorpus(thorough)
	rt.WorkerMain(shard, of, from, len(corpus), func(i int) string { return corpus[i].name }, func(i int) rt.CaseResult {
		return c05MapCase(corpus[i], thorough)
	})
}

func c05MapCase(p c05Prog, thorough bool) rt.CaseResult {
	res := rt.CaseResult{Counters: map[string]int64{"map_order_programs": 1}}
	v := p.variants(false)[0] // as written, multiarray store
	run := func(pol vmap.Policy) ([]string, []int, error) {
		vmap.Set(pol)
		got, err := c05Eval(v, p.temporal)
		pts := vmap.Points()
		vmap.Set(vmap.Policy{DeviateAt: -1})
		return got, pts, err
	}
	ref, pts, err := run(vmap.Policy{Mode: 0, DeviateAt: -1})
	if err != nil {
		res.Counters["map_order_programs_rejected"] = 1
		return res
	}
	res.Counters["map_order_points"] = int64(len(pts))
	refS := strings.Join(ref, "|")
	check := func(pol vmap.Policy, desc string) {
		got, _, err := run(pol)
		res.Counters["map_order_executions"]++
		res.Counters["transitions"]++
		res.Counters["evaluations"]++
		res.Counters["traces_validated_against_impl"]++
		w := map[string]any{"program": p.name, "source": v.src, "mode": pol.Mode, "deviate_at": pol.DeviateAt, "deviate_perm": pol.DeviatePerm}
		kind := "result-depends-on-map-iteration-order"
		if p.temporal {
			kind += "-temporal"
		}
		if err != nil {
			if len(res.Violations) < 3 {
				res.Violations = append(res.Violations, rt.Violation{Kind: kind, Detail: fmt.Sprintf("%s: under %s the program fails (%v) while it evaluates under the sorted order\n%s", p.name, desc, err, v.src), Witness: w})
			}
			return
		}
		if strings.Join(got, "|") != refS && len(res.Violations) < 3 {
			a, b := mg.Diff(ref, got)
			res.Violations = append(res.Violations, rt.Violation{Kind: kind, Detail: fmt.Sprintf("%s: %s gives a different result than the sorted order: only sorted %s; only this order %s\n%s", p.name, desc, mg.Short(a), mg.Short(b), v.src), Witness: w})
		}
	}
	for mode := 1; mode <= 3; mode++ {
		check(vmap.Policy{Mode: mode, DeviateAt: -1}, fmt.Sprintf("global mode %d (1 reversed, 2 rotate-by-one, 3 rotate-by-half)", mode))
	}
	// one deviation: every dynamic range execution, every offered alternative order (quick: at most 3 per point)
	for i, n := range pts {
		alts := vmap.Alternatives(n)
		if !thorough && alts > 3 {
			alts = 3
		}
		for a := 1; a <= alts; a++ {
			check(vmap.Policy{Mode: 0, DeviateAt: i, DeviatePerm: a}, fmt.Sprintf("deviation at range execution #%d (%d keys), alternative %d", i, n, a))
		}
	}
	if len(pts) > 0 {
		res.Counters["distinct_nontrivial"] = 1
	}
	res.Outcome = fmt.Sprintf("%s points=%d", p.name, len(pts))
	if len(p.rules) >= 3 && len(pts) > 20 {
		res.Sample = map[string]any{"program": p.name, "dynamic_range_over_map_executions": len(pts), "largest_map": maxInt(pts)}
	}
	return res
}

func maxInt(xs []int) int {
	m := 0
	for _, x := range xs {
		if x > m {
			m = x
		}
	}
	return m
}

// c05MapOrder runs the exploration in worker processes (the iteration policy is process-global).
func c05MapOrder(r *rt.Run) {
	corpus := c05MapCorpus(r.Thorough())
	rt.ConfirmRuns = 1
	rt.RunSharded(r, len(corpus), []string{"C05", "worker", r.Tier}, 300*time.Second, 8000000, func(idx int, label, how string) {
		r.Violate("map-order-case-did-not-return", label+": "+how, map[string]any{"program": label})
	})
	r.Extra["map_order_exploration"] = "vmap build: every range-over-map of the repository's non-test code iterates in an order chosen by the explorer; explored: 4 global modes and every single deviation (per dynamic range execution, up to 3 alternative orders in quick, all offered alternatives in thorough)"
}
