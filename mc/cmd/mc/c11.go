package main

import (
	"fmt"
	"os"
	"strings"
	"time"

	"codeberg.org/TauCeti/mangle-go/analysis"
	"codeberg.org/TauCeti/mangle-go/ast"
	"codeberg.org/TauCeti/mangle-go/builtin"
	"codeberg.org/TauCeti/mangle-go/factstore"
	"codeberg.org/TauCeti/mangle-go/parse"
	"codeberg.org/TauCeti/mangle-go/symbols"

	"verifmc/mg"
	"verifmc/rt"
)

func init() { register("C11", c11) }

// c11FirstLateRule: index of the first inequality rule in c11Rules (4 inequality rules, then list constructors and reducers).
const c11FirstLateRule = 30

var c11Types = []string{"/any", "/number", "/string", "/name", "/a", "/a/b", "fn:Singleton(/a/x)", "fn:Union(/number, /string)", "fn:Union(/a, /b)", "/b", "fn:List(/number)",
	"fn:Pair(/number, /name)", "fn:Map(/name, /number)", "fn:Struct(/f, /number)", "fn:Struct(/f, /number, fn:opt(/g, /string))", "/float64", "/bytes", "fn:List(/a)", "fn:Map(/any, /any)"}

var c11Rules = []string{
	"p(X,Y) :- e(X,Y).",
	"p(Y,X) :- e(X,Y).",
	"p(X,1) :- e(X,_).",
	"p(X,\"s\") :- e(X,_).",
	"p(X,Z) :- e(X,Y), Z = fn:pair(X, Y).",
	"p(X,Z) :- e(X,Y), Z = fn:list(X, Y).",
	"p(X,Z) :- e(X,Y), Z = [Y].",
	"p(X,Z) :- e(X,Y), :match_pair(Y, Z, _).",
	"p(X,Z) :- e(X,Y), :match_pair(Y, _, Z).",
	"p(X,Z) :- e(X,Y), :match_cons(Y, Z, _).",
	"p(X,Z) :- e(X,Y), :match_cons(Y, _, Z).",
	"p(X,Z) :- e(X,Y), :list:member(Z, Y).",
	"p(X,Z) :- e(X,Y), :match_field(Y, /f, Z).",
	"p(X,Z) :- e(X,Y), :match_field(Y, /g, Z).",
	"p(X,Z) :- e(X,Y), :match_field(Y, /kind, Z).",
	"p(X,Z) :- e(X,Y), :match_entry(Y, X, Z).",
	"p(X,Z) :- e(X,Y), Z = fn:plus(X, 1).",
	"p(X,Z) :- e(X,Y), Z = fn:name:root(Y).",
	"p(X,Z) :- e(X,Y), Z = fn:string:concat(Y, \"x\").",
	"p(X,Z) :- e(X,Y) |> let Z = fn:list:len(Y).",
	"p(X,Y) :- e(X,Y).\np(X,Z) :- p(X,Y), e(Y,Z).",
	"p(X,Y) :- e(X,Y), e(Y,X).",
	"p(X,Z) :- e(X,Y), Z = {/f: X}.",
	"p(X,Z) :- e(X,Y), Z = [X: Y].",
	"p(Z,X) :- e(X,Y), Z = fn:map:get(Y, X).",
	"p(Z,X) :- e(X,Y), Z = fn:struct:get(Y, /f).",
	"p(X,Y) :- e(X,Y), :match_prefix(X, /a).",
	"p(X,Y) :- e(X,Y), !:match_prefix(X, /a).",
	"p(X,Y) :- e(X,Y), !:match_prefix(X, /a/b).",
	"p(X,Y) :- e(X,Y), !:match_prefix(X, /b), !:match_prefix(Y, /a/b).",
	// inequalities say nothing about the type of the variable
	"p(X,Y) :- e(X,Y), X != 1.",
	"p(X,Y) :- e(X,Y), X != \"s\".",
	"p(X,Y) :- e(X,Y), Y != /a/x.",
	"p(X,Y) :- e(X,Y), X != Y.",
	// list constructors whose element and list arguments have different types
	"p(X,Z) :- e(X,Y), Z = fn:list:cons(X, [1]).",
	"p(X,Z) :- e(X,Y), Z = fn:list:cons(1, [Y]).",
	"p(X,Z) :- e(X,Y), Z = fn:list:cons(X, Y).",
	"p(X,Z) :- e(X,Y), Z = fn:list:append(Y, X).",
	"p(X,Z) :- e(X,Y), Z = fn:list:append([1], X).",
	// reducers, also with more than one argument
	"p(X,Z) :- e(X,Y) |> do fn:group_by(X), let Z = fn:collect(Y).",
	"p(X,Z) :- e(X,Y) |> do fn:group_by(X), let Z = fn:collect(X, Y).",
	"p(X,Z) :- e(X,Y) |> do fn:group_by(X), let Z = fn:collect_distinct(Y, X).",
	"p(X,Z) :- e(X,Y) |> do fn:group_by(X), let Z = fn:max(Y).",
	"p(X,Z) :- e(X,Y) |> do fn:group_by(X), let Z = fn:collect_to_map(X, Y).",
	"p(X,Z) :- e(X,Y) |> do fn:group_by(X), let Z = fn:count().",
}

func c11Values() []ast.Constant {
	n := name2
	one, two := ast.Number(1), ast.Number(2)
	s, f, g := ast.String("s"), n("/f"), n("/g")
	ax, abz, aby := n("/a/x"), n("/ab/z"), n("/a/b/y")
	return []ast.Constant{one, two, s, ast.String("t"), n("/a"), ax, aby, abz, n("/b/x"), ast.Float64(1.5), ast.Bytes([]byte("b")),
		ast.ListNil, ast.List([]ast.Constant{one}), ast.List([]ast.Constant{one, two}), ast.List([]ast.Constant{ax}), ast.List([]ast.Constant{s}),
		ast.Pair(&one, &ax), ast.Pair(&one, &s), ast.Pair(&ax, &one),
		ast.MapNil, *ast.Map(map[*ast.Constant]*ast.Constant{&ax: &one}), *ast.Map(map[*ast.Constant]*ast.Constant{&one: &ax}), *ast.Map(map[*ast.Constant]*ast.Constant{&s: &s}),
		*ast.Struct(map[*ast.Constant]*ast.Constant{&f: &one}), *ast.Struct(map[*ast.Constant]*ast.Constant{&f: &one, &g: &s}), *ast.Struct(map[*ast.Constant]*ast.Constant{&f: &s}), ast.StructNil,
	}
}

func c11(r *rt.Run) {
	r.Assumptions = []string{
		"membership is the library's own run-time check builtin.TypeChecker.CheckTypeBounds on the analysed (desugared) declarations",
		"base facts are written in the program text (subject to the analysis) and, as a second variant, added to the store after being admitted by CheckTypeBounds for the declared EDB predicate",
	}
	if r.Replay != "" {
		_, w := rt.ReadReplay(r.Replay)
		c11Program(r, fmt.Sprint(w["source"]), toStrings(w["store_facts"]))
		r.Finish("replay")
	}
	r.SetBudget(240*time.Second, 3000*time.Second)
	types := append(append([]string{}, c11Types[:13]...), c11Types[14]) // quick: without the plain struct type (the one with an optional field stays)
	if r.Thorough() {
		types = c11Types
	}
	V := c11Values()
	// members of each type among V
	members := map[string][]ast.Constant{}
	for _, t := range types {
		bt, err := parse.BaseTerm(t)
		if err != nil {
			panic(err)
		}
		h, err := symbols.NewSetHandle(bt)
		if err != nil {
			panic(fmt.Sprintf("%s: %v", t, err))
		}
		for _, v := range V {
			if h.HasType(v) {
				members[t] = append(members[t], v)
			}
		}
	}
	type job struct{ t1, t2 string }
	var jobs []job
	for _, a := range types {
		for _, b := range types {
			jobs = append(jobs, job{a, b})
		}
	}
	r.Extra["declaration_pairs"] = len(jobs)
	r.Extra["rules"] = len(c11Rules)
	rt.ForRange(len(jobs), func(ji int) {
		t1, t2 := jobs[ji].t1, jobs[ji].t2
		m1, m2 := members[t1], members[t2]
		if len(m1) > 3 {
			m1 = m1[:3]
		}
		if len(m2) > 3 && !r.Thorough() {
			m2 = m2[:3]
		} else if len(m2) > 4 {
			m2 = m2[:4]
		}
		// fact sets: every single admitted fact, and the first two pairs
		var factSets [][]string
		var all []string
		for _, a := range m1 {
			for _, b := range m2 {
				f := fmt.Sprintf("e(%s, %s)", a.String(), b.String())
				all = append(all, f)
				factSets = append(factSets, []string{f})
			}
		}
		if len(all) >= 2 {
			factSets = append(factSets, []string{all[0], all[len(all)-1]})
		}
		if len(all) >= 3 {
			factSets = append(factSets, []string{all[1], all[2]})
		}
		if len(factSets) == 0 {
			factSets = [][]string{nil}
		}
		// facts in the program text whose admission is the decision of analysis alone: every value of the universe in
		// the first column (the second column holds a member), copied by the first rule into a predicate declared alike
		if len(m2) > 0 {
			for _, v := range V {
				src := fmt.Sprintf("Decl e(A, B) bound [%s, %s].\nDecl p(A, B) bound [%s, %s].\ne(%s, %s).\n%s\n", t1, t2, t1, t2, v.String(), m2[0].String(), c11Rules[0])
				c11Program(r, src, nil)
			}
		}
		for _, s1 := range types {
			for _, s2 := range types {
				if r.Expired("C11 enumeration") {
					return
				}
				for ri, rule := range c11Rules {
					if !r.Thorough() && ri >= c11FirstLateRule+4 && s1 != t1 && s1 != "/any" {
						continue // these rules copy X into the first column; quick varies only the declared type of the second
					}
					decl := fmt.Sprintf("Decl e(A, B) bound [%s, %s].\nDecl p(A, B) bound [%s, %s].\n", t1, t2, s1, s2)
					// cheap pre-filter: analyse once without facts; if rejected there is nothing to evaluate
					if !c11Accepts(decl + rule + "\n") {
						r.Add("programs_rejected", 1)
						r.Add("states", 1)
						continue
					}
					for fi, fs := range factSets {
						src := decl
						for _, f := range fs {
							src += f + ".\n"
						}
						src += rule + "\n"
						c11Program(r, src, nil)
						if (ri+fi)%5 == 0 {
							// variant: facts go to the store, not the text
							c11Program(r, decl+rule+"\n", fs)
						}
					}
				}
			}
		}
	})
	c11MultiRow(r)
	c11Helper(r)
	c11StructFamily(r)
	c11NameFamily(r)
	r.Finish("programs Decl e(A,B) bound[t1,t2]. Decl p(A,B) bound[s1,s2]. <facts of e> <rule> over a type alphabet (15 quick / 19 thorough), 44 rules (inequalities, list constructors over different element types, reducers with one and two arguments, copy, swap, positive and negated :match_prefix on a union of name-prefix types, constants, constructors, match predicates, accessors, arithmetic, recursion, let-transform) and fact sets drawn from the constants the declaration of e admits, plus every constant of the universe written as a fact in the program text (admission is then decided by the analysis alone); " +
		"a name family (15 name-prefix / singleton / union types for both columns of e and the columns of p x 11 rules that make two differently typed variables equal); a struct family (14 struct and tagged-union types differing in one aspect at a time — required field type, presence and type of optional fields, nesting in a list — for the second column of e and p x all rules x facts carrying / lacking the optional fields); an undeclared recursive helper whose column type shifts per round through a multi-row conversion relation, feeding a declared predicate (3 conversions x 6 helper shapes x 7 declared bounds x 3 uses); a multi-row family (e declared with two bound rows, u/1 with a wide bound, 9 rule shapes incl. a variable bound earlier with a wider type and the 4th/5th distinct variable of a clause, every head row over 6 types and two-row heads); accepted-and-evaluated programs: every stored fact of e and p passes CheckTypeBounds; non-trivial = accepted programs that derive at least one p fact")
}

// c11MultiRow: declarations with several bound rows. Every alternative row of a body predicate must
// be reflected in the inferred head type, whatever was inferred for its variables before.
func c11MultiRow(r *rt.Run) {
	rowPairs := [][2][2]string{
		{{"/number", "/number"}, {"/string", "/string"}},
		{{"/number", "/string"}, {"/name", "/number"}},
		{{"/a", "/number"}, {"/number", "/a"}},
		{{"/any", "/number"}, {"/number", "/any"}},
		{{"/string", "/name"}, {"/string", "/number"}},
	}
	rules := []string{
		"p(X,Y) :- e(X,Y).",
		"p(Y,X) :- e(X,Y).",
		"p(X,Y) :- u(X), e(X,Y).",
		"p(X,Y) :- u(Y), e(X,Y).",
		"p(X,Y) :- u(X), u(Y), e(X,Y).",
		"p(X,Y) :- e(X,Y), e(Y,X).",
		"p(X,W) :- e(X,Y), e(Y,Z), e(Z,W).",
		"p(A,D) :- u(A), u(B), u(C), e(A,D).",
		"p(D,E) :- u(A), u(B), u(C), A != B, B != C, e(D,E).",
	}
	heads := []string{"/number", "/string", "/name", "/a", "/any", "fn:Union(/number, /string)"}
	sample := map[string][]string{"/number": {"1", "2"}, "/string": {`"s"`}, "/name": {"/b/x", "/a/x"}, "/a": {"/a/x"}, "/any": {"1", `"s"`, "/a/x"}}
	uFacts := "u(1).\nu(2).\nu(\"s\").\nu(/a/x).\nu(/b/x).\n"
	var headDecls []string
	for _, h1 := range heads {
		for _, h2 := range heads {
			headDecls = append(headDecls, fmt.Sprintf("Decl p(A, B) bound [%s, %s].\n", h1, h2))
		}
	}
	headDecls = append(headDecls, "Decl p(A, B) bound [/number, /number] bound [/string, /string].\n", "Decl p(A, B) bound [/number, /string] bound [/name, /number].\n", "Decl p(A, B) bound [/a, /number] bound [/number, /a].\n")
	type job struct {
		rp int
		hd string
	}
	var jobs []job
	for i := range rowPairs {
		for _, hd := range headDecls {
			jobs = append(jobs, job{i, hd})
		}
	}
	rt.ForRange(len(jobs), func(ji int) {
		rp := rowPairs[jobs[ji].rp]
		decl := fmt.Sprintf("Decl e(A, B) bound [%s, %s] bound [%s, %s].\nDecl u(A) bound [/any].\n", rp[0][0], rp[0][1], rp[1][0], rp[1][1]) + jobs[ji].hd
		var facts string
		for _, row := range rp {
			for _, a := range sample[row[0]] {
				for _, b := range sample[row[1]] {
					facts += fmt.Sprintf("e(%s, %s).\n", a, b)
				}
			}
		}
		for _, rule := range rules {
			r.Add("multi_row_programs", 1)
			if !c11Accepts(decl + rule + "\n") {
				r.Add("programs_rejected", 1)
				r.Add("states", 1)
				continue
			}
			c11Program(r, decl+uFacts+facts+rule+"\n", nil)
		}
	})
}

// c11Helper: an undeclared, recursive helper predicate whose column type shifts with every round of its recursive
// rule (through a conversion relation with several bound rows) feeds a declared predicate. The declared bound must
// cover what any number of rounds can produce.
func c11Helper(r *rt.Run) {
	convs := []string{
		"Decl conv(A, B) bound [/number, /string] bound [/string, /name].\nconv(1, \"s\").\nconv(\"s\", /a/x).\n",
		"Decl conv(A, B) bound [/number, /string] bound [/string, /name] bound [/name, fn:List(/number)].\nconv(1, \"s\").\nconv(\"s\", /a/x).\nconv(/a/x, [1]).\n",
		"Decl conv(A, B) bound [/number, /number] bound [/number, /string].\nconv(1, 2).\nconv(2, \"s\").\n",
	}
	helpers := [][]string{
		{"value(X) :- seed(X).", "value(Y) :- value(X), conv(X, Y)."},
		{"value(Y) :- value(X), conv(X, Y).", "value(X) :- seed(X)."},
		{"value(X) :- seed(X).", "value(Y) :- other(X), conv(X, Y).", "other(X) :- value(X)."},
		{"value(X) :- seed(X).", "other(Y) :- value(X), conv(X, Y).", "value(X) :- other(X)."},
		{"value(X) :- seed(X).", "value(Y) :- conv(X, Y), value(X)."},
		{"value(X) :- seed(X).", "value(Z) :- value(X), conv(X, Y), conv(Y, Z)."},
	}
	outs := []string{"/number", "/string", "/name", "/any", "fn:Union(/number, /string)", "fn:Union(/number, /string, /name)", "fn:Union(/string, /name)"}
	uses := []string{"out(X) :- value(X).", "out(X) :- value(X), seed(_).", "out(Y) :- value(X), conv(X, Y)."}
	type job struct {
		conv, out, use string
		helper         []string
	}
	var jobs []job
	for _, c := range convs {
		for _, h := range helpers {
			for _, o := range outs {
				for _, u := range uses {
					jobs = append(jobs, job{c, o, u, h})
				}
			}
		}
	}
	rt.ForRange(len(jobs), func(i int) {
		j := jobs[i]
		src := j.conv + "Decl seed(A) bound [/number].\nseed(1).\nDecl out(A) bound [" + j.out + "].\n" + strings.Join(j.helper, "\n") + "\n" + j.use + "\n"
		r.Add("helper_programs", 1)
		c11Program(r, src, nil)
	})
}

func c11Accepts(src string) bool {
	ok := false
	rt.Try(func() {
		u, err := mg.Parse(src)
		if err != nil {
			return
		}
		_, err = analysis.AnalyzeAndCheckBounds([]parse.SourceUnit{u}, nil, analysis.ErrorForBoundsMismatch)
		ok = err == nil
	})
	return ok
}

func c11Program(r *rt.Run, src string, storeFacts []string) {
	r.Add("states", 1)
	r.Add("evaluations", 1)
	r.Add("transitions", 1)
	w := map[string]any{"source": src, "store_facts": storeFacts}
	var pi *analysis.ProgramInfo
	var aerr error
	pv, st := rt.Try(func() {
		u, err := mg.Parse(src)
		if err != nil {
			aerr = err
			return
		}
		pi, aerr = analysis.AnalyzeAndCheckBounds([]parse.SourceUnit{u}, nil, analysis.ErrorForBoundsMismatch)
	})
	if pv != nil {
		r.Violate("analysis-panic", fmt.Sprintf("%v at %s", pv, rt.ShortStack(st)), w)
		return
	}
	if aerr != nil {
		r.Add("programs_rejected", 1)
		return
	}
	r.Add("programs_accepted", 1)
	store := factstore.NewMultiIndexedArrayInMemoryStore()
	tc := builtin.NewTypeCheckerFromDesugared(pi.Decls)
	for _, f := range evalGround(storeFacts) {
		if tc.CheckTypeBounds(f) == nil {
			store.Add(f)
		}
	}
	var everr error
	pv, st = rt.Try(func() { everr = mg.Eval(pi, store) })
	r.Add("traces_validated_against_impl", 1)
	if pv != nil {
		r.Violate("eval-panic", fmt.Sprintf("%v at %s", pv, rt.ShortStack(st)), w)
		return
	}
	if everr != nil {
		r.Add("programs_failing_at_evaluation", 1)
		return
	}
	derived := 0
	for _, a := range mg.Atoms(store) {
		if a.Predicate.Symbol != "e" && a.Predicate.Symbol != "p" && a.Predicate.Symbol != "out" && a.Predicate.Symbol != "conv" && a.Predicate.Symbol != "seed" {
			continue
		}
		if a.Predicate.Symbol == "p" {
			derived++
		}
		if err := tc.CheckTypeBounds(a); err != nil {
			// attribute to the recorded map-key / struct-width inconsistencies when the offending argument is explained by them
			suffix := ""
			if decl := pi.Decls[a.Predicate]; decl != nil && len(decl.Bounds) > 0 {
				sufs := map[string]bool{}
				for j, b := range decl.Bounds[0].Bounds {
					c, _ := a.Args[j].(ast.Constant)
					if h, err := symbols.NewBoundHandle(b); err == nil && !h.HasType(c) {
						if member, ok := taggedUnionVariantMember(b, c); ok && member {
							// the value is a member of one of the variants: the run-time check itself is wrong,
							// which no recorded inconsistency of the conformance judgement explains
							sufs["-although-member-of-a-variant-of-the-tagged-union"] = true
							continue
						}
						sufs[explain(b, c)] = true
					}
				}
				if len(sufs) == 1 {
					for s := range sufs {
						suffix = s
					}
				}
			}
			kind := "fact-violates-declared-bounds"
			if a.Predicate.Symbol == "e" {
				kind = "base-fact-violates-declared-bounds"
			}
			if suffix == "" && (strings.Contains(src, ":match_pair(") || strings.Contains(src, ":match_cons(")) {
				// the offending value is an output of a polymorphic match built-in whose type variables the bounds checker does not instantiate
				suffix = "-output-of-polymorphic-match-builtin"
			}
			if os.Getenv("VERIF_DEBUG_KINDS") != "" {
				lines := strings.Split(strings.TrimSpace(src), "\n")
				kind += " RULE " + lines[len(lines)-1]
			}
			r.Violate(kind+suffix, fmt.Sprintf("program accepted with bounds checking, but stored fact %s fails the run-time type check: %v\n%s", a.String(), err, strings.TrimSpace(src)), w)
			return
		}
	}
	if derived > 0 {
		r.Add("distinct_nontrivial", 1)
		if r.SampleN() < 8 {
			r.Sample(map[string]any{"source": src})
		}
	}
	r.Outcome(fmt.Sprint(derived))
}
