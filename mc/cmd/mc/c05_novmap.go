//go:build !vmap

package main

import "verifmc/rt"

// c05MapOrder is the map-iteration-order exploration; it needs the vmap build (bin/mcv).
func c05MapOrder(r *rt.Run) {
	r.Extra["map_order_exploration"] = "not in this build (run through ./check C05, which builds the vmap overlay)"
}
