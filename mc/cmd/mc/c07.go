package main

import (
	"errors"
	"fmt"
	"math"
	"math/big"
	"sort"
	"strconv"
	"strings"
	"time"

	"codeberg.org/TauCeti/mangle-go/ast"
	"codeberg.org/TauCeti/mangle-go/builtin"
	"codeberg.org/TauCeti/mangle-go/functional"
	"codeberg.org/TauCeti/mangle-go/symbols"
	"codeberg.org/TauCeti/mangle-go/unionfind"

	"verifmc/oracle"
	"verifmc/rt"
)

func init() { register("C07", c07) }

func fnApply(sym string, args ...ast.Constant) (ast.Constant, error) {
	bt := make([]ast.BaseTerm, len(args))
	for i, a := range args {
		bt[i] = a
	}
	var out ast.Constant
	var err error
	pv, st := rt.Try(func() {
		out, err = functional.EvalApplyFn(ast.ApplyFn{Function: ast.FunctionSym{Symbol: sym, Arity: len(args)}, Args: bt}, ast.ConstSubstList{})
	})
	if pv != nil {
		return ast.Constant{}, fmt.Errorf("PANIC %v at %s", pv, rt.ShortStack(st))
	}
	return out, err
}

// decide calls builtin.Decide; variables are named X, Y. Returns ok, list of (X,Y) bindings.
func decide(pred string, args ...ast.BaseTerm) (bool, [][2]ast.BaseTerm, error) {
	uf := unionfind.New()
	var ok bool
	var subs []*unionfind.UnionFind
	var err error
	pv, st := rt.Try(func() {
		ok, subs, err = builtin.Decide(ast.Atom{Predicate: ast.PredicateSym{Symbol: pred, Arity: len(args)}, Args: args}, &uf)
	})
	if pv != nil {
		return false, nil, fmt.Errorf("PANIC %v at %s", pv, rt.ShortStack(st))
	}
	var out [][2]ast.BaseTerm
	for _, s := range subs {
		out = append(out, [2]ast.BaseTerm{s.Get(ast.Variable{Symbol: "X"}), s.Get(ast.Variable{Symbol: "Y"})})
	}
	return ok, out, err
}

func keyOfTerm(t ast.BaseTerm) string {
	if c, ok := t.(ast.Constant); ok {
		return oracle.Key(c)
	}
	return "unbound:" + fmt.Sprint(t)
}

type c07Ctx struct {
	r   *rt.Run
	law string
}

func (c *c07Ctx) eval() {
	c.r.Add("evaluations", 1)
	c.r.Add("transitions", 1)
	c.r.Add("traces_validated_against_impl", 1)
}

func (c *c07Ctx) fail(detail string, args ...any) {
	var as []string
	for _, a := range args {
		as = append(as, fmt.Sprint(a))
	}
	c.r.Violate("law-"+c.law, detail+" ["+strings.Join(as, ", ")+"]", map[string]any{"law": c.law, "args": as})
}

func mod64(x *big.Int) int64 {
	m := new(big.Int).Lsh(big.NewInt(1), 64)
	y := new(big.Int).Mod(x, m)
	if y.Cmp(new(big.Int).Lsh(big.NewInt(1), 63)) >= 0 {
		y.Sub(y, m)
	}
	return y.Int64()
}

var c07I = []int64{math.MinInt64, math.MinInt64 + 1, -3, -2, -1, 0, 1, 2, 3, math.MaxInt64 - 1, math.MaxInt64}

func c07Elems() []ast.Constant {
	a, _ := ast.Name("/a")
	return []ast.Constant{ast.Number(-1), ast.Number(0), ast.Number(1), ast.Number(2), ast.String("a"), a}
}

func c07Lists(elems []ast.Constant, maxLen int) [][]ast.Constant {
	out := [][]ast.Constant{{}}
	prev := [][]ast.Constant{{}}
	for l := 1; l <= maxLen; l++ {
		var cur [][]ast.Constant
		for _, p := range prev {
			for _, e := range elems {
				cur = append(cur, append(append([]ast.Constant{}, p...), e))
			}
		}
		out = append(out, cur...)
		prev = cur
	}
	return out
}

func c07(r *rt.Run) {
	r.Assumptions = []string{
		"laws are checked against Go's standard library / math/big written independently of the implementation",
		"maps/structs with duplicate keys are outside law 2; float reducers and order-sensitive reducers are excluded by the property",
	}
	only := ""
	if r.Replay != "" {
		_, w := rt.ReadReplay(r.Replay)
		only = fmt.Sprint(w["law"])
	}
	r.SetBudget(200*time.Second, 1800*time.Second)
	laws := []struct {
		name string
		fn   func(c *c07Ctx)
	}{
		{"pair-list-inverse", c07Lists1},
		{"map-struct-inverse", c07Maps},
		{"ring", c07Ring},
		{"div-mod", c07DivMod},
		{"order", c07Order},
		{"strings-names", c07Strings},
		{"reducers", c07Reducers},
		{"time-duration-float", c07Time},
		{"list-membership", c07Membership},
	}
	rt.ForRange(len(laws), func(i int) {
		if only != "" && only != laws[i].name {
			return
		}
		laws[i].fn(&c07Ctx{r, laws[i].name})
		r.Add("states", 1)
	})
	r.Extra["states"] = r.Get("evaluations")
	r.Extra["distinct_nontrivial"] = r.Get("evaluations")
	r.Finish("9 law families (the ninth: membership of an independently built copy of every value of a 17-value universe in every list of <= 3 such values; the eighth: time, duration, interval, float, tuple and distance functions over 24 boundary instants and every pair of them), each over the full product of small argument domains (11 boundary ints, 6 elements, all lists up to length 3, maps/structs up to 2 entries in every argument order, strings/names, all permutations of every multiset of <=4 rows); " +
		"every evaluation is a distinct argument tuple and compared with an independent computation")
}

func c07Lists1(c *c07Ctx) {
	E := c07Elems()
	X, Y := ast.Variable{Symbol: "X"}, ast.Variable{Symbol: "Y"}
	for _, a := range E {
		for _, b := range E {
			p, err := fnApply("fn:pair", a, b)
			c.eval()
			if err != nil {
				c.fail("fn:pair failed: "+err.Error(), a, b)
				continue
			}
			ok, subs, err := decide(":match_pair", p, X, Y)
			if err != nil || !ok || len(subs) != 1 || keyOfTerm(subs[0][0]) != oracle.Key(a) || keyOfTerm(subs[0][1]) != oracle.Key(b) {
				c.fail(fmt.Sprintf(":match_pair(fn:pair(a,b),X,Y) gave ok=%v subs=%v err=%v", ok, subs, err), a, b)
			}
			// a non-pair never matches
			if ok, _, _ := decide(":match_pair", a, X, Y); ok {
				c.fail(":match_pair matched a non-pair", a)
			}
		}
	}
	lists := c07Lists(E, 3)
	for _, l := range lists {
		lc := ast.List(l)
		if len(l) == 0 {
			lc = ast.ListNil
		}
		c.eval()
		// fn:list builds the same list
		built, err := fnApply("fn:list", l...)
		if err != nil || oracle.Key(built) != oracle.Key(lc) {
			c.fail("fn:list(args) differs from the list of args", lc)
		}
		// len
		n, err := fnApply("fn:list:len", lc)
		if err != nil || oracle.Key(n) != oracle.Key(ast.Number(int64(len(l)))) {
			c.fail(fmt.Sprintf("fn:list:len = %v err=%v, want %d", n, err, len(l)), lc)
		}
		// match_nil
		okNil, _, err := decide(":match_nil", lc)
		if err != nil || okNil != (len(l) == 0) {
			c.fail(fmt.Sprintf(":match_nil = %v err=%v", okNil, err), lc)
		}
		// match_cons
		ok, subs, err := decide(":match_cons", lc, X, Y)
		if len(l) == 0 {
			if ok || err != nil {
				c.fail(":match_cons matched the empty list", lc)
			}
		} else {
			tail := ast.List(l[1:])
			if len(l) == 1 {
				tail = ast.ListNil
			}
			if err != nil || !ok || len(subs) != 1 || keyOfTerm(subs[0][0]) != oracle.Key(l[0]) || keyOfTerm(subs[0][1]) != oracle.Key(tail) {
				c.fail(fmt.Sprintf(":match_cons gave ok=%v subs=%v err=%v", ok, subs, err), lc)
			}
		}
		// get
		for i := -1; i <= len(l); i++ {
			c.eval()
			g, err := fnApply("fn:list:get", lc, ast.Number(int64(i)))
			if i >= 0 && i < len(l) {
				if err != nil || oracle.Key(g) != oracle.Key(l[i]) {
					c.fail(fmt.Sprintf("fn:list:get(l,%d) = %v err=%v want %v", i, g, err, l[i]), lc)
				}
			} else if err == nil {
				c.fail(fmt.Sprintf("fn:list:get(l,%d) out of range returned %v without error", i, g), lc)
			}
		}
		// member enumeration
		ok, subs, err = decide(":list:member", X, lc)
		c.eval()
		var gotKeys, wantKeys []string
		for _, s := range subs {
			gotKeys = append(gotKeys, keyOfTerm(s[0]))
		}
		for _, e := range l {
			wantKeys = append(wantKeys, oracle.Key(e))
		}
		sort.Strings(gotKeys)
		sort.Strings(wantKeys)
		if err != nil || ok != (len(l) > 0) || strings.Join(gotKeys, "|") != strings.Join(wantKeys, "|") {
			c.fail(fmt.Sprintf(":list:member(X,l) enumerated %v (ok=%v err=%v), want the elements with multiplicity", gotKeys, ok, err), lc)
		}
		for _, e := range E {
			c.eval()
			want := false
			for _, x := range l {
				if oracle.Key(x) == oracle.Key(e) {
					want = true
				}
			}
			ok, _, err := decide(":list:member", e, lc)
			if err != nil || ok != want {
				c.fail(fmt.Sprintf(":list:member(e,l) = %v err=%v want %v", ok, err, want), e, lc)
			}
			cn, err := fnApply("fn:list:contains", lc, e)
			if err != nil || (oracle.Key(cn) == oracle.Key(ast.TrueConstant)) != want {
				c.fail(fmt.Sprintf("fn:list:contains(l,e) = %v err=%v want %v", cn, err, want), lc, e)
			}
			// append, cons
			ap, err := fnApply("fn:list:append", lc, e)
			wantAp := ast.List(append(append([]ast.Constant{}, l...), e))
			if err != nil || oracle.Key(ap) != oracle.Key(wantAp) {
				c.fail("fn:list:append(l,e) != l ++ [e]", lc, e)
			}
			co, err := fnApply("fn:list:cons", e, lc)
			wantCo := ast.List(append([]ast.Constant{e}, l...))
			if err != nil || oracle.Key(co) != oracle.Key(wantCo) {
				c.fail("fn:list:cons(e,l) != [e] ++ l", e, lc)
			}
		}
	}
}

func c07Maps(c *c07Ctx) {
	na, _ := ast.Name("/a")
	nf, _ := ast.Name("/f")
	ng, _ := ast.Name("/g")
	one := ast.Number(1)
	zero := ast.Number(0)
	keys := []ast.Constant{ast.Number(1), ast.Number(2), ast.String("a"), na, ast.List([]ast.Constant{one}), ast.Number(65792), ast.Pair(&one, &one),
		// compound keys of the same shape with equal hashes
		ast.ListNil, ast.List([]ast.Constant{zero}), ast.List([]ast.Constant{zero, zero})}
	vals := []ast.Constant{ast.Number(7), ast.String("v"), na}
	X := ast.Variable{Symbol: "X"}
	check := func(kind string, ks, vs []ast.Constant, probe []ast.Constant) {
		ctor, get, match := "fn:map", "fn:map:get", ":match_entry"
		if kind == "struct" {
			ctor, get, match = "fn:struct", "fn:struct:get", ":match_field"
		}
		perms := permutations(len(ks))
		var first string
		var firstM ast.Constant
		for pi, p := range perms {
			var args []ast.Constant
			for _, i := range p {
				args = append(args, ks[i], vs[i])
			}
			m, err := fnApply(ctor, args...)
			c.eval()
			if err != nil {
				c.fail(ctor+" failed: "+err.Error(), args)
				return
			}
			if pi == 0 {
				first, firstM = oracle.Key(m), m
			} else if oracle.Key(m) != first {
				c.fail(ctor+" built from the same pairs in a different order is a different value", args)
			}
			// the same value must also be Equal (and print alike) however often and in whatever order it is built;
			// the constructor goes through a Go map, so equal-hash keys are presented in a different order each time
			for rep := 0; rep < 6 && len(ks) > 1; rep++ {
				m2, err := fnApply(ctor, args...)
				if err != nil || !m2.Equals(firstM) || !firstM.Equals(m2) || m2.String() != firstM.String() || m2.Hash() != firstM.Hash() {
					c.fail(fmt.Sprintf("%s built again from the same pairs is not Equal to the first construction: %v vs %v", ctor, m2, firstM), args)
					break
				}
			}
			for i, k := range ks {
				g, err := fnApply(get, m, k)
				if err != nil || oracle.Key(g) != oracle.Key(vs[i]) {
					c.fail(fmt.Sprintf("%s(m,k) = %v err=%v, want %v", get, g, err, vs[i]), m, k)
				}
				ok, subs, err := decide(match, m, k, X)
				if err != nil || !ok || len(subs) != 1 || keyOfTerm(subs[0][0]) != oracle.Key(vs[i]) {
					c.fail(fmt.Sprintf("%s(m,k,X) gave ok=%v subs=%v err=%v, want X=%v", match, ok, subs, err, vs[i]), m, k)
				}
			}
			for _, k := range probe {
				present := false
				for _, k2 := range ks {
					if oracle.Key(k2) == oracle.Key(k) {
						present = true
					}
				}
				if present {
					continue
				}
				if g, err := fnApply(get, m, k); err == nil {
					c.fail(fmt.Sprintf("%s(m, missing key) returned %v without error", get, g), m, k)
				}
				if ok, _, err := decide(match, m, k, X); ok && err == nil {
					c.fail(match+"(m, missing key, X) matched", m, k)
				}
			}
		}
	}
	for i, k1 := range keys {
		for _, v1 := range vals {
			check("map", []ast.Constant{k1}, []ast.Constant{v1}, keys)
			for j, k2 := range keys {
				if i == j {
					continue
				}
				for _, v2 := range vals {
					check("map", []ast.Constant{k1, k2}, []ast.Constant{v1, v2}, keys)
				}
			}
		}
	}
	fields := []ast.Constant{nf, ng, na}
	for i, k1 := range fields {
		for _, v1 := range vals {
			check("struct", []ast.Constant{k1}, []ast.Constant{v1}, fields)
			for j, k2 := range fields {
				if i == j {
					continue
				}
				for _, v2 := range vals {
					check("struct", []ast.Constant{k1, k2}, []ast.Constant{v1, v2}, fields)
					for l, k3 := range fields {
						if l != i && l != j {
							check("struct", []ast.Constant{k1, k2, k3}, []ast.Constant{v1, v2, v1}, fields)
						}
					}
				}
			}
		}
	}
}

func c07Ring(c *c07Ctx) {
	num := func(sym string, xs ...int64) (int64, bool) {
		args := make([]ast.Constant, len(xs))
		for i, x := range xs {
			args[i] = ast.Number(x)
		}
		v, err := fnApply(sym, args...)
		c.eval()
		if err != nil || v.Type != ast.NumberType {
			c.fail(fmt.Sprintf("%s failed: %v", sym, err), xs)
			return 0, false
		}
		n, _ := v.NumberValue()
		c.r.Outcome(sym + fmt.Sprint(n))
		return n, true
	}
	bi := func(x int64) *big.Int { return big.NewInt(x) }
	for _, a := range c07I {
		if v, ok := num("fn:minus", a); ok && v != mod64(new(big.Int).Neg(bi(a))) {
			c.fail("unary fn:minus(a) != -a mod 2^64", a)
		}
		for _, b := range c07I {
			if v, ok := num("fn:plus", a, b); ok && v != mod64(new(big.Int).Add(bi(a), bi(b))) {
				c.fail("fn:plus(a,b) != a+b mod 2^64", a, b)
			}
			if v, ok := num("fn:mult", a, b); ok && v != mod64(new(big.Int).Mul(bi(a), bi(b))) {
				c.fail("fn:mult(a,b) != a*b mod 2^64", a, b)
			}
			if v, ok := num("fn:minus", a, b); ok && v != mod64(new(big.Int).Sub(bi(a), bi(b))) {
				c.fail("fn:minus(a,b) != a-b mod 2^64", a, b)
			}
			ab, _ := num("fn:plus", a, b)
			ba, _ := num("fn:plus", b, a)
			if ab != ba {
				c.fail("fn:plus not commutative", a, b)
			}
			mab, _ := num("fn:mult", a, b)
			mba, _ := num("fn:mult", b, a)
			if mab != mba {
				c.fail("fn:mult not commutative", a, b)
			}
			for _, d := range c07I {
				if v, ok := num("fn:plus", a, b, d); ok && v != mod64(new(big.Int).Add(new(big.Int).Add(bi(a), bi(b)), bi(d))) {
					c.fail("fn:plus(a,b,c) != a+b+c mod 2^64", a, b, d)
				}
				if v, ok := num("fn:mult", a, b, d); ok && v != mod64(new(big.Int).Mul(new(big.Int).Mul(bi(a), bi(b)), bi(d))) {
					c.fail("fn:mult(a,b,c) != a*b*c mod 2^64", a, b, d)
				}
				if v, ok := num("fn:minus", a, b, d); ok && v != mod64(new(big.Int).Sub(new(big.Int).Sub(bi(a), bi(b)), bi(d))) {
					c.fail("fn:minus(a,b,c) != a-b-c mod 2^64", a, b, d)
				}
				// distributivity through the implementation itself
				bd, _ := num("fn:plus", b, d)
				l, _ := num("fn:mult", a, bd)
				ab2, _ := num("fn:mult", a, b)
				ad, _ := num("fn:mult", a, d)
				rr, _ := num("fn:plus", ab2, ad)
				if l != rr {
					c.fail("a*(b+c) != a*b + a*c", a, b, d)
				}
			}
		}
	}
}

func c07DivMod(c *c07Ctx) {
	isDivZero := func(err error) bool { return err != nil && errors.Is(err, functional.ErrDivisionByZero) }
	for _, x := range c07I {
		// unary: 1 div x
		v, err := fnApply("fn:div", ast.Number(x))
		c.eval()
		if x == 0 {
			if !isDivZero(err) {
				c.fail(fmt.Sprintf("fn:div(0) (1 div 0) gave %v err=%v, want ErrDivisionByZero", v, err), x)
			}
		} else {
			want := new(big.Int).Quo(big.NewInt(1), big.NewInt(x)).Int64()
			if n, _ := v.NumberValue(); err != nil || n != want {
				c.fail(fmt.Sprintf("unary fn:div(x) = %v err=%v, want 1 div x = %d", v, err, want), x)
			}
		}
		for _, y := range c07I {
			q, qerr := fnApply("fn:div", ast.Number(x), ast.Number(y))
			m, merr := fnApply("fn:mod", ast.Number(x), ast.Number(y))
			c.eval()
			if y == 0 {
				if !isDivZero(qerr) {
					c.fail(fmt.Sprintf("fn:div(x,0) gave %v err=%v, want ErrDivisionByZero", q, qerr), x, y)
				}
				if !isDivZero(merr) {
					c.fail(fmt.Sprintf("fn:mod(x,0) gave %v err=%v, want ErrDivisionByZero", m, merr), x, y)
				}
				continue
			}
			if qerr != nil || merr != nil {
				c.fail(fmt.Sprintf("div/mod failed: %v %v", qerr, merr), x, y)
				continue
			}
			qn, _ := q.NumberValue()
			mn, _ := m.NumberValue()
			wq := mod64(new(big.Int).Quo(big.NewInt(x), big.NewInt(y)))
			wm := new(big.Int).Rem(big.NewInt(x), big.NewInt(y)).Int64()
			if qn != wq {
				c.fail(fmt.Sprintf("fn:div(x,y) = %d, truncating division gives %d", qn, wq), x, y)
			}
			if mn != wm {
				c.fail(fmt.Sprintf("fn:mod(x,y) = %d, truncated remainder is %d", mn, wm), x, y)
			}
			// x = q*y + m (mod 2^64), |m| < |y|, sign(m) in {0, sign(x)}
			recon := mod64(new(big.Int).Add(new(big.Int).Mul(big.NewInt(qn), big.NewInt(y)), big.NewInt(mn)))
			if recon != x {
				c.fail("x != (x div y)*y + (x mod y)", x, y)
			}
			if new(big.Int).Abs(big.NewInt(mn)).Cmp(new(big.Int).Abs(big.NewInt(y))) >= 0 {
				c.fail("|x mod y| >= |y|", x, y)
			}
			if mn != 0 && (mn < 0) != (x < 0) {
				c.fail("sign of remainder differs from sign of x", x, y)
			}
			for _, z := range c07I {
				v, err := fnApply("fn:div", ast.Number(x), ast.Number(y), ast.Number(z))
				c.eval()
				if z == 0 {
					if !isDivZero(err) {
						c.fail(fmt.Sprintf("fn:div(x,y,0) gave %v err=%v, want ErrDivisionByZero", v, err), x, y, z)
					}
					continue
				}
				want := mod64(new(big.Int).Quo(big.NewInt(wq), big.NewInt(z)))
				if n, _ := v.NumberValue(); err != nil || n != want {
					c.fail(fmt.Sprintf("fn:div(x,y,z) = %v err=%v, want (x div y) div z = %d", v, err, want), x, y, z)
				}
			}
		}
	}
}

func c07Order(c *c07Ctx) {
	type fam struct {
		lt, le, gt, ge string
		mk             func(int64) ast.Constant
	}
	fams := []fam{
		{":lt", ":le", ":gt", ":ge", ast.Number},
		{":time:lt", ":time:le", ":time:gt", ":time:ge", ast.Time},
		{":duration:lt", ":duration:le", ":duration:gt", ":duration:ge", ast.Duration},
	}
	for _, f := range fams {
		dec := func(p string, a, b int64) bool {
			ok, _, err := decide(p, f.mk(a), f.mk(b))
			c.eval()
			if err != nil {
				c.fail(p+" failed: "+err.Error(), a, b)
			}
			return ok
		}
		for _, a := range c07I {
			for _, b := range c07I {
				lt, le, gt, ge := dec(f.lt, a, b), dec(f.le, a, b), dec(f.gt, a, b), dec(f.ge, a, b)
				if lt != (a < b) || le != (a <= b) || gt != (a > b) || ge != (a >= b) {
					c.fail(fmt.Sprintf("%s family disagrees with int64 order: lt=%v le=%v gt=%v ge=%v", f.lt, lt, le, gt, ge), a, b)
				}
				n := 0
				if lt {
					n++
				}
				if gt {
					n++
				}
				if a == b {
					n++
				}
				if n != 1 {
					c.fail("not exactly one of <, =, >", a, b)
				}
				if gt != dec(f.lt, b, a) || ge != dec(f.le, b, a) {
					c.fail("> / >= are not the converses of < / <=", a, b)
				}
				for _, d := range c07I {
					if lt && dec(f.lt, b, d) && !dec(f.lt, a, d) {
						c.fail("< not transitive", a, b, d)
					}
				}
			}
		}
	}
	// mixed types must not be ordered silently as equal types: an error or false is fine, true for both < and > is not
	ok1, _, _ := decide(":lt", ast.Number(1), ast.String("a"))
	ok2, _, _ := decide(":gt", ast.Number(1), ast.String("a"))
	if ok1 && ok2 {
		c.fail("number and string are both < and > each other")
	}
}

func c07Strings(c *c07Ctx) {
	strs := []string{"", "a", "ab", "ba", "é", "a/b", "a\nb", "aa"}
	names := []string{"/a", "/a/b", "/ab", "/a/b/c", "/x/y"}
	for _, s := range strs {
		for _, t := range strs {
			v, err := fnApply("fn:string:concat", ast.String(s), ast.String(t))
			c.eval()
			if got, _ := v.StringValue(); err != nil || got != s+t {
				c.fail("fn:string:concat(s,t) != s+t", s, t)
			}
			for _, p := range []struct {
				pred string
				f    func(string, string) bool
			}{{":string:starts_with", strings.HasPrefix}, {":string:ends_with", strings.HasSuffix}, {":string:contains", strings.Contains}} {
				ok, _, err := decide(p.pred, ast.String(s), ast.String(t))
				c.eval()
				if err != nil || ok != p.f(s, t) {
					c.fail(fmt.Sprintf("%s(s,t) = %v err=%v, Go says %v", p.pred, ok, err, p.f(s, t)), s, t)
				}
			}
			for _, u := range []string{"", "x", "a"} {
				for _, n := range []int64{-1, 0, 1, 2} {
					v, err := fnApply("fn:string:replace", ast.String(s), ast.String(t), ast.String(u), ast.Number(n))
					c.eval()
					if got, _ := v.StringValue(); err != nil || got != strings.Replace(s, t, u, int(n)) {
						c.fail("fn:string:replace disagrees with strings.Replace", s, t, u, n)
					}
				}
			}
		}
		for _, n := range c07I {
			v, err := fnApply("fn:string:concat", ast.String(s), ast.Number(n))
			c.eval()
			if got, _ := v.StringValue(); err != nil || got != s+strconv.FormatInt(n, 10) {
				c.fail("fn:string:concat(s, number) != s + decimal", s, n)
			}
		}
	}
	for _, n := range c07I {
		v, err := fnApply("fn:number:to_string", ast.Number(n))
		c.eval()
		if got, _ := v.StringValue(); err != nil || got != strconv.FormatInt(n, 10) {
			c.fail("fn:number:to_string != decimal", n)
		}
	}
	// :match_prefix is about the parts of a name: /a/b and /a/b/c have the prefix /a, /ab and /a itself do not — the
	// same relation as membership in the name-prefix type /a
	for _, ns := range append(append([]string{}, names...), "/a/bc", "/abc", "/a.b/c", "/x") {
		for _, ps := range append(append([]string{}, names...), "/a/bc", "/x", "/a.b") {
			n, _ := ast.Name(ns)
			pn, _ := ast.Name(ps)
			c.eval()
			var got bool
			var err error
			pv, st := rt.Try(func() { got, _, err = builtin.Decide(ast.NewAtom(":match_prefix", n, pn), &unionfind.UnionFind{}) })
			want := strings.HasPrefix(ns, ps+"/")
			member := false
			if h, herr := symbols.NewSetHandle(pn); herr == nil {
				member = h.HasType(n) && ns != ps
			}
			if pv != nil || err != nil || got != want || got != member {
				c.fail(fmt.Sprintf(":match_prefix(%s, %s) = %v err=%v panic=%v %s; by parts %v; member of the prefix type (and not the name itself): %v", ns, ps, got, err, pv, rt.ShortStack(st), want, member), ns, ps)
			}
		}
	}
	for _, ns := range names {
		n, err := ast.Name(ns)
		if err != nil {
			panic(err)
		}
		parts := strings.Split(ns[1:], "/")
		c.eval()
		v, err := fnApply("fn:name:to_string", n)
		if got, _ := v.StringValue(); err != nil || got != ns {
			c.fail("fn:name:to_string != the name's text", ns)
		}
		root, err := fnApply("fn:name:root", n)
		if got, _ := root.NameValue(); err != nil || got != "/"+parts[0] {
			c.fail(fmt.Sprintf("fn:name:root = %v, want /%s", root, parts[0]), ns)
		}
		tip, err := fnApply("fn:name:tip", n)
		if got, _ := tip.NameValue(); err != nil || got != "/"+parts[len(parts)-1] {
			c.fail(fmt.Sprintf("fn:name:tip = %v, want /%s", tip, parts[len(parts)-1]), ns)
		}
		l, err := fnApply("fn:name:list", n)
		var got []string
		if err == nil {
			l.ListValues(func(e ast.Constant) error { s, _ := e.NameValue(); got = append(got, s); return nil }, func() error { return nil })
		}
		if err != nil || strings.Join(got, "") != ns || len(got) != len(parts) {
			c.fail(fmt.Sprintf("fn:name:list = %v; joining its parts must give the name back", got), ns)
		}
		for _, t := range names {
			tn, _ := ast.Name(t)
			// concat of names through to_string
			v, err := fnApply("fn:string:concat", n, tn)
			c.eval()
			if gs, _ := v.StringValue(); err != nil || gs != ns+t {
				c.fail("fn:string:concat(name,name) != texts joined", ns, t)
			}
		}
	}
}

func c07Reducers(c *c07Ctx) {
	X := ast.Variable{Symbol: "X"}
	red := func(sym string, hasArg bool, rows []int64) (ast.Constant, error) {
		var rs []ast.ConstSubstList
		for _, x := range rows {
			rs = append(rs, ast.ConstSubstList{}.Extend(X, ast.Number(x)))
		}
		fn := ast.ApplyFn{Function: ast.FunctionSym{Symbol: sym, Arity: 0}}
		if hasArg {
			fn = ast.ApplyFn{Function: ast.FunctionSym{Symbol: sym, Arity: 1}, Args: []ast.BaseTerm{X}}
		}
		var out ast.Constant
		var err error
		pv, st := rt.Try(func() { out, err = functional.EvalReduceFn(fn, rs) })
		if pv != nil {
			return out, fmt.Errorf("PANIC %v at %s", pv, rt.ShortStack(st))
		}
		return out, err
	}
	vals := []int64{math.MinInt64, -(1 << 62), -2, -1, 0, 1, 2, 3, 1 << 62, 5000000000000000000, math.MaxInt64}
	var multisets [][]int64
	var rec func(start int, cur []int64)
	rec = func(start int, cur []int64) {
		if len(cur) > 0 {
			multisets = append(multisets, append([]int64{}, cur...))
		}
		if len(cur) == 4 {
			return
		}
		for i := start; i < len(vals); i++ {
			rec(i, append(cur, vals[i]))
		}
	}
	rec(0, nil)
	for _, ms := range multisets {
		var sum int64
		mn, mx := ms[0], ms[0]
		var fsum float64
		distinct := map[int64]bool{}
		for _, x := range ms {
			sum += x
			if x < mn {
				mn = x
			}
			if x > mx {
				mx = x
			}
			distinct[x] = true
		}
		sorted := append([]int64{}, ms...)
		sort.Slice(sorted, func(i, j int) bool { return sorted[i] < sorted[j] })
		for _, p := range permutations(len(ms)) {
			rows := make([]int64, len(ms))
			for i, j := range p {
				rows[i] = ms[j]
			}
			c.eval()
			chk := func(sym string, hasArg bool, want ast.Constant) {
				v, err := red(sym, hasArg, rows)
				c.r.Outcome(sym + oracle.Key(v))
				if err != nil || oracle.Key(v) != oracle.Key(want) {
					c.fail(fmt.Sprintf("%s over %v = %v err=%v, want %v", sym, rows, v, err, want), rows)
				}
			}
			chk("fn:count", false, ast.Number(int64(len(ms))))
			chk("fn:sum", true, ast.Number(sum))
			chk("fn:min", true, ast.Number(mn))
			chk("fn:max", true, ast.Number(mx))
			// avg: permutation invariance is only demanded where the float sum is exact (small magnitudes)
			small := true
			fsum = 0
			for _, x := range sorted {
				if x > 1<<50 || x < -(1<<50) {
					small = false
				}
				fsum += float64(x)
			}
			if small {
				chk("fn:avg", true, ast.Float64(fsum/float64(len(ms))))
			} else {
				// large magnitudes: the float sum rounds, so the mean is compared with the exact one (big integers)
				// up to a relative error of 1e-9, and must lie between the smallest and the largest row
				exact := new(big.Int)
				for _, x := range rows {
					exact.Add(exact, big.NewInt(x))
				}
				mean, _ := new(big.Float).Quo(new(big.Float).SetInt(exact), big.NewFloat(float64(len(rows)))).Float64()
				v, err := red("fn:avg", true, rows)
				got, ferr := v.Float64Value()
				tol := 1e-9 * math.Max(math.Abs(mean), math.Max(math.Abs(float64(mn)), math.Abs(float64(mx))))
				if err != nil || ferr != nil || math.Abs(got-mean) > tol || got < float64(mn)-tol || got > float64(mx)+tol {
					c.fail(fmt.Sprintf("fn:avg over %v = %v err=%v, the mean is %g (rows lie in [%d, %d])", rows, v, err, mean, mn, mx), rows)
				}
			}
			v, err := red("fn:collect_distinct", true, rows)
			got := map[string]bool{}
			n := 0
			if err == nil {
				v.ListValues(func(e ast.Constant) error { got[oracle.Key(e)] = true; n++; return nil }, func() error { return nil })
			}
			if err != nil || n != len(distinct) || len(got) != len(distinct) {
				c.fail(fmt.Sprintf("fn:collect_distinct over %v = %v: as a set it must equal the distinct rows", rows, v), rows)
			}
			for x := range distinct {
				if !got[oracle.Key(ast.Number(x))] {
					c.fail("fn:collect_distinct lacks a row value", rows, x)
				}
			}
		}
	}
	c07CollectValues(c)
}

// c07CollectValues: distinct-collection read as a set over rows of arbitrary constants, among them values whose
// hashes are equal although they are different ([1] / 65792, a number / duration / time with the same count,
// a name and a string with the same text, pairs whose first components agree in their low bits, a two-element
// list and the pair of the same elements), in every order of the rows; one- and two-argument forms.
func c07CollectValues(c *c07Ctx) {
	X, Y := ast.Variable{Symbol: "X"}, ast.Variable{Symbol: "Y"}
	nm, _ := ast.Name("/a")
	P := func(a, b ast.Constant) ast.Constant { return ast.Pair(&a, &b) }
	five := ast.Number(5)
	W := []ast.Constant{ast.List([]ast.Constant{ast.Number(1)}), ast.Number(65792), ast.Number(1), ast.Duration(1), ast.Time(1), ast.Float64(1),
		ast.String("/a"), nm, ast.Bytes([]byte("/a")), P(ast.Number(-1), five), P(ast.Number(math.MaxInt64), five), P(ast.Number(0), five), P(ast.Number(math.MinInt64), five),
		ast.List([]ast.Constant{ast.Number(0), ast.Number(0)}), P(ast.Number(0), ast.Number(0)), ast.Number(0), ast.Float64(0)}
	run := func(fn ast.ApplyFn, rows []ast.ConstSubstList) (ast.Constant, error) {
		var out ast.Constant
		var err error
		pv, st := rt.Try(func() { out, err = functional.EvalReduceFn(fn, rows) })
		if pv != nil {
			return out, fmt.Errorf("PANIC %v at %s", pv, rt.ShortStack(st))
		}
		return out, err
	}
	check := func(desc string, fn ast.ApplyFn, rows []ast.ConstSubstList, want map[string]bool) {
		c.eval()
		v, err := run(fn, rows)
		got := map[string]bool{}
		n := 0
		if err == nil {
			v.ListValues(func(e ast.Constant) error { got[oracle.Key(e)] = true; n++; return nil }, func() error { return nil })
		}
		ok := err == nil && n == len(want) && len(got) == len(want)
		for k := range want {
			if !got[k] {
				ok = false
			}
		}
		if !ok {
			c.fail(fmt.Sprintf("%s = %v err=%v: read as a set it must hold exactly the %d distinct row values", desc, v, err, len(want)), desc)
		}
	}
	var multisets [][]int
	var rec func(start int, cur []int)
	rec = func(start int, cur []int) {
		if len(cur) > 0 {
			multisets = append(multisets, append([]int{}, cur...))
		}
		if len(cur) == 3 {
			return
		}
		for i := start; i < len(W); i++ {
			rec(i, append(cur, i))
		}
	}
	rec(0, nil)
	one := ast.ApplyFn{Function: ast.FunctionSym{Symbol: "fn:collect_distinct", Arity: 1}, Args: []ast.BaseTerm{X}}
	two := ast.ApplyFn{Function: ast.FunctionSym{Symbol: "fn:collect_distinct", Arity: 2}, Args: []ast.BaseTerm{X, Y}}
	for _, ms := range multisets {
		for _, p := range permutations(len(ms)) {
			var rows, rows2 []ast.ConstSubstList
			want, want2 := map[string]bool{}, map[string]bool{}
			var desc []string
			for _, j := range p {
				v := W[ms[j]]
				rows = append(rows, ast.ConstSubstList{}.Extend(X, v))
				rows2 = append(rows2, ast.ConstSubstList{}.Extend(X, v).Extend(Y, five))
				want[oracle.Key(v)] = true
				want2[oracle.Key(P(v, five))] = true
				desc = append(desc, v.String())
			}
			check("fn:collect_distinct(X) over rows X="+strings.Join(desc, " ; "), one, rows, want)
			check("fn:collect_distinct(X,Y) over rows (X,5) with X="+strings.Join(desc, " ; "), two, rows2, want2)
		}
	}
}
