package main

import (
	"fmt"
	"math"
	"math/big"
	"time"

	"codeberg.org/TauCeti/mangle-go/ast"
	"codeberg.org/TauCeti/mangle-go/functional"

	"verifmc/oracle"
	"verifmc/rt"
)

// c07TimeValues: instants / durations in nanoseconds around the points where the implementation could slip
// (epoch, day boundaries before and after it, sub-second parts, the ends of the representable range).
var c07TimeValues = []int64{
	math.MinInt64, math.MinInt64 + 1, -1 << 62, -86400000000000 - 1, -86400000000000, -1000000001, -1000000000, -999999999, -1, 0, 1, 999999999, 1000000000, 1000000001,
	59999999999, 3599999999999, 86399999999999, 86400000000000, 86400000000001, 1700000000123456789, 951782400000000000 /* 2000-02-29 */, 1 << 62, math.MaxInt64 - 1, math.MaxInt64,
}

func big64(x int64) *big.Int { return big.NewInt(x) }

// wrap64 reduces a big integer to two's complement int64.
func wrap64(x *big.Int) int64 {
	m := new(big.Int).Lsh(big.NewInt(1), 64)
	r := new(big.Int).Mod(x, m)
	if r.Cmp(new(big.Int).Lsh(big.NewInt(1), 63)) >= 0 {
		r.Sub(r, m)
	}
	return r.Int64()
}

func c07Time(c *c07Ctx) {
	num := func(k ast.Constant) (int64, bool) { n, err := k.NumberValue(); return n, err == nil }
	name := func(s string) ast.Constant { n, _ := ast.Name(s); return n }
	for _, t := range c07TimeValues {
		T, D, N := ast.Time(t), ast.Duration(t), ast.Number(t)
		c.eval()
		// conversions are mutually inverse
		if v, err := fnApply("fn:time:from_unix_nanos", N); err != nil || oracle.Key(v) != oracle.Key(T) {
			c.fail(fmt.Sprintf("fn:time:from_unix_nanos(%d) = %v err=%v", t, v, err), t)
		}
		if v, err := fnApply("fn:time:to_unix_nanos", T); err != nil || oracle.Key(v) != oracle.Key(N) {
			c.fail(fmt.Sprintf("fn:time:to_unix_nanos(time %d) = %v err=%v", t, v, err), t)
		}
		if v, err := fnApply("fn:duration:from_nanos", N); err != nil || oracle.Key(v) != oracle.Key(D) {
			c.fail(fmt.Sprintf("fn:duration:from_nanos(%d) = %v err=%v", t, v, err), t)
		}
		if v, err := fnApply("fn:duration:nanos", D); err != nil || oracle.Key(v) != oracle.Key(N) {
			c.fail(fmt.Sprintf("fn:duration:nanos(duration %d) = %v err=%v", t, v, err), t)
		}
		// calendar fields agree with the proleptic Gregorian calendar in UTC (Go's time package as reference)
		g := time.Unix(0, t).UTC()
		for fn, want := range map[string]int{"fn:time:year": g.Year(), "fn:time:month": int(g.Month()), "fn:time:day": g.Day(), "fn:time:hour": g.Hour(), "fn:time:minute": g.Minute(), "fn:time:second": g.Second()} {
			c.eval()
			v, err := fnApply(fn, T)
			if n, ok := num(v); err != nil || !ok || n != int64(want) {
				c.fail(fmt.Sprintf("%s(%s) = %v err=%v, want %d", fn, g.Format(time.RFC3339Nano), v, err, want), t)
			}
		}
		// duration accessors: float views of the same number of nanoseconds
		for fn, unit := range map[string]float64{"fn:duration:hours": 3600e9, "fn:duration:minutes": 60e9, "fn:duration:seconds": 1e9} {
			c.eval()
			v, err := fnApply(fn, D)
			f, ferr := v.Float64Value()
			want := time.Duration(t)
			var w float64
			switch fn {
			case "fn:duration:hours":
				w = want.Hours()
			case "fn:duration:minutes":
				w = want.Minutes()
			default:
				w = want.Seconds()
			}
			_ = unit
			if err != nil || ferr != nil || f != w {
				c.fail(fmt.Sprintf("%s(%dns) = %v err=%v, want %v", fn, t, v, err, w), t)
			}
		}
		// truncation: result <= t, less than one unit away, on a unit boundary, idempotent (where no overflow is involved)
		if t > math.MinInt64/2 && t < math.MaxInt64/2 {
			for unit, d := range map[string]int64{"/day": 86400e9, "/hour": 3600e9, "/minute": 60e9, "/second": 1e9, "/millisecond": 1e6, "/microsecond": 1e3, "/nanosecond": 1} {
				c.eval()
				v, err := fnApply("fn:time:trunc", T, name(unit))
				tv, terr := v.TimeValue()
				if err != nil || terr != nil {
					c.fail(fmt.Sprintf("fn:time:trunc(%d, %s) failed: %v %v", t, unit, err, terr), t, unit)
					continue
				}
				floor := t - ((t%d)+d)%d
				if tv != floor {
					c.fail(fmt.Sprintf("fn:time:trunc(%d, %s) = %d, want the unit boundary at or before it, %d", t, unit, tv, floor), t, unit)
				}
				if v2, err := fnApply("fn:time:trunc", v, name(unit)); err != nil || oracle.Key(v2) != oracle.Key(v) {
					c.fail(fmt.Sprintf("fn:time:trunc is not idempotent at %d, %s", t, unit), t, unit)
				}
			}
		}
		// formatting and parsing are inverse within the four-digit years
		if g.Year() >= 1 && g.Year() <= 9999 {
			c.eval()
			s, err := fnApply("fn:time:format", T, name("/nanosecond"))
			if err != nil {
				c.fail(fmt.Sprintf("fn:time:format(%d, /nanosecond) failed: %v", t, err), t)
			} else if back, err := fnApply("fn:time:parse_rfc3339", s); err != nil || oracle.Key(back) != oracle.Key(T) {
				c.fail(fmt.Sprintf("fn:time:parse_rfc3339(fn:time:format(%d)) = %v err=%v (formatted %v)", t, back, err, s), t)
			}
			for prec, d := range map[string]int64{"/second": 1e9, "/millisecond": 1e6, "/microsecond": 1e3} {
				c.eval()
				s, err := fnApply("fn:time:format", T, name(prec))
				if err != nil {
					c.fail(fmt.Sprintf("fn:time:format(%d, %s) failed: %v", t, prec, err), t, prec)
					continue
				}
				back, err := fnApply("fn:time:parse_rfc3339", s)
				bv, berr := back.TimeValue()
				floor := t - ((t%d)+d)%d
				if err != nil || berr != nil || bv != floor {
					c.fail(fmt.Sprintf("parse(format(%d, %s)) = %v err=%v, want the instant truncated to that precision, %d", t, prec, back, err, floor), t, prec)
				}
			}
		}
		// duration text: what Go prints for a duration parses back to it
		c.eval()
		if v, err := fnApply("fn:duration:parse", ast.String(time.Duration(t).String())); err != nil || oracle.Key(v) != oracle.Key(D) {
			c.fail(fmt.Sprintf("fn:duration:parse(%q) = %v err=%v", time.Duration(t).String(), v, err), t)
		}
		for _, u := range c07TimeValues {
			U, DU := ast.Time(u), ast.Duration(u)
			c.eval()
			// add and sub are inverse (two's complement, like the integers)
			sum, err1 := fnApply("fn:time:add", T, DU)
			if err1 != nil {
				c.fail("fn:time:add failed: "+err1.Error(), t, u)
				continue
			}
			if sv, _ := sum.TimeValue(); sv != wrap64(new(big.Int).Add(big64(t), big64(u))) {
				c.fail(fmt.Sprintf("fn:time:add(%d, %dns) = %v", t, u, sum), t, u)
			}
			if back, err := fnApply("fn:time:sub", sum, T); err != nil || oracle.Key(back) != oracle.Key(DU) {
				c.fail(fmt.Sprintf("fn:time:sub(fn:time:add(t, d), t) = %v err=%v, want d", back, err), t, u)
			}
			if diff, err := fnApply("fn:time:sub", U, T); err != nil {
				c.fail("fn:time:sub failed: "+err.Error(), u, t)
			} else if again, err := fnApply("fn:time:add", T, diff); err != nil || oracle.Key(again) != oracle.Key(U) {
				c.fail(fmt.Sprintf("fn:time:add(t, fn:time:sub(u, t)) = %v err=%v, want u", again, err), t, u)
			}
			// duration addition commutes and agrees with multiplication by 2
			a, err1 := fnApply("fn:duration:add", D, DU)
			b, err2 := fnApply("fn:duration:add", DU, D)
			if err1 != nil || err2 != nil || oracle.Key(a) != oracle.Key(b) {
				c.fail("fn:duration:add does not commute", t, u)
			}
			if t == u {
				if m, err := fnApply("fn:duration:mult", D, ast.Number(2)); err != nil || oracle.Key(m) != oracle.Key(a) {
					c.fail(fmt.Sprintf("fn:duration:mult(d, 2) = %v but d + d = %v", m, a), t)
				}
			}
			// the orders of times and of durations are the order of their nanosecond counts
			for pred, rel := range map[string]func(int64, int64) bool{":time:lt": func(x, y int64) bool { return x < y }, ":time:le": func(x, y int64) bool { return x <= y },
				":time:gt": func(x, y int64) bool { return x > y }, ":time:ge": func(x, y int64) bool { return x >= y }} {
				ok, _, err := decide(pred, T, U)
				if err != nil || ok != rel(t, u) {
					c.fail(fmt.Sprintf("%s(%d, %d) = %v err=%v", pred, t, u, ok, err), t, u)
				}
				dp := ":duration" + pred[5:]
				ok, _, err = decide(dp, D, DU)
				if err != nil || ok != rel(t, u) {
					c.fail(fmt.Sprintf("%s(%d, %d) = %v err=%v", dp, t, u, ok, err), t, u)
				}
			}
			// an interval is a pair of instants
			iv := ast.Pair(&T, &U)
			if s, err := fnApply("fn:interval:start", iv); err != nil || oracle.Key(s) != oracle.Key(T) {
				c.fail(fmt.Sprintf("fn:interval:start = %v err=%v", s, err), t, u)
			}
			if e, err := fnApply("fn:interval:end", iv); err != nil || oracle.Key(e) != oracle.Key(U) {
				c.fail(fmt.Sprintf("fn:interval:end = %v err=%v", e, err), t, u)
			}
			if t != math.MinInt64 && u != math.MaxInt64 && t <= u {
				if d, err := fnApply("fn:interval:duration", iv); err == nil {
					if dv, derr := d.DurationValue(); derr != nil || dv != wrap64(new(big.Int).Sub(big64(u), big64(t))) {
						c.fail(fmt.Sprintf("fn:interval:duration([%d,%d]) = %v", t, u, d), t, u)
					}
				}
			}
		}
	}
	// whole numbers of hours, minutes and seconds
	for _, k := range []int64{-3, -1, 0, 1, 2, 24, 1000} {
		for fn, unit := range map[string]int64{"fn:duration:from_hours": 3600e9, "fn:duration:from_minutes": 60e9, "fn:duration:from_seconds": 1e9} {
			c.eval()
			v, err := fnApply(fn, ast.Number(k))
			if dv, derr := v.DurationValue(); err != nil || derr != nil || dv != k*unit {
				c.fail(fmt.Sprintf("%s(%d) = %v err=%v, want %dns", fn, k, v, err, k*unit), k)
			}
		}
	}
	// within_distance(a, b, d) says |a - b| < d, for every a, b (no wrap-around) and is symmetric in a and b
	for _, a := range c07I {
		for _, b := range c07I {
			for _, d := range []int64{0, 1, 2, 5, math.MaxInt64} {
				c.eval()
				ok, _, err := decide(":within_distance", ast.Number(a), ast.Number(b), ast.Number(d))
				dist := new(big.Int).Abs(new(big.Int).Sub(big64(a), big64(b)))
				want := dist.Cmp(big64(d)) < 0
				if err == nil && ok != want {
					c.fail(fmt.Sprintf(":within_distance(%d, %d, %d) = %v, but |a - b| = %v", a, b, d, ok, dist), a, b, d)
				}
				ok2, _, err2 := decide(":within_distance", ast.Number(b), ast.Number(a), ast.Number(d))
				if (err == nil) != (err2 == nil) || ok != ok2 {
					c.fail(fmt.Sprintf(":within_distance is not symmetric at (%d, %d, %d)", a, b, d), a, b, d)
				}
			}
		}
	}
	// fn:tuple is the right-nested pair; fn:some wraps a value
	for _, xs := range c07Lists(c07Elems()[:4], 4) {
		if len(xs) < 2 {
			continue
		}
		c.eval()
		v, err := fnApply("fn:tuple", xs...)
		want := xs[len(xs)-1]
		for i := len(xs) - 2; i >= 0; i-- {
			a, b := xs[i], want
			want = ast.Pair(&a, &b)
		}
		if err != nil || oracle.Key(v) != oracle.Key(want) {
			c.fail(fmt.Sprintf("fn:tuple(%v) = %v err=%v, want the right-nested pair %v", xs, v, err, want), xs)
		}
	}
	// floating point: identities that hold exactly in IEEE arithmetic
	fl := []float64{-2.5, -1, -0.5, 0, 0.5, 1, 1.5, 3, 1e100, -1e100, 1e-300}
	for _, x := range fl {
		for _, y := range fl {
			c.eval()
			X, Y := ast.Float64(x), ast.Float64(y)
			p1, e1 := fnApply("fn:float:plus", X, Y)
			p2, e2 := fnApply("fn:float:plus", Y, X)
			if e1 != nil || e2 != nil || oracle.Key(p1) != oracle.Key(p2) {
				c.fail("fn:float:plus does not commute", x, y)
			} else if f, _ := p1.Float64Value(); f != x+y {
				c.fail(fmt.Sprintf("fn:float:plus(%v, %v) = %v", x, y, p1), x, y)
			}
			m1, e1 := fnApply("fn:float:mult", X, Y)
			m2, e2 := fnApply("fn:float:mult", Y, X)
			if e1 != nil || e2 != nil || oracle.Key(m1) != oracle.Key(m2) {
				c.fail("fn:float:mult does not commute", x, y)
			} else if f, _ := m1.Float64Value(); f != x*y {
				c.fail(fmt.Sprintf("fn:float:mult(%v, %v) = %v", x, y, m1), x, y)
			}
			if y != 0 {
				q, err := fnApply("fn:float:div", X, Y)
				if f, ferr := q.Float64Value(); err != nil || ferr != nil || f != x/y {
					c.fail(fmt.Sprintf("fn:float:div(%v, %v) = %v err=%v", x, y, q, err), x, y)
				}
			}
		}
		if x >= 0 && x < 1e50 {
			c.eval()
			sq, err := fnApply("fn:sqrt", ast.Float64(x*x))
			if f, ferr := sq.Float64Value(); err != nil || ferr != nil || f != math.Sqrt(x*x) {
				c.fail(fmt.Sprintf("fn:sqrt(%v) = %v err=%v", x*x, sq, err), x)
			}
		}
	}
	c07TypedReducers(c)
}

// c07TypedReducers: min / max over times, durations and floats, the (wrapping) sum of durations, fn:collect read as a
// multiset and fn:collect_to_map read as a finite function, under every order of the rows.
func c07TypedReducers(c *c07Ctx) {
	X, Y := ast.Variable{Symbol: "X"}, ast.Variable{Symbol: "Y"}
	vals := []int64{math.MinInt64, -1000000000, -1, 0, 1, 86400000000000, math.MaxInt64}
	var multisets [][]int64
	var rec func(start int, cur []int64)
	rec = func(start int, cur []int64) {
		if len(cur) > 0 {
			multisets = append(multisets, append([]int64{}, cur...))
		}
		if len(cur) == 3 {
			return
		}
		for i := start; i < len(vals); i++ {
			rec(i, append(cur, vals[i]))
		}
	}
	rec(0, nil)
	apply := func(sym string, rows []ast.ConstSubstList, args ...ast.BaseTerm) (ast.Constant, error) {
		var out ast.Constant
		var err error
		pv, st := rt.Try(func() {
			out, err = functional.EvalReduceFn(ast.ApplyFn{Function: ast.FunctionSym{Symbol: sym, Arity: len(args)}, Args: args}, rows)
		})
		if pv != nil {
			return out, fmt.Errorf("PANIC %v at %s", pv, rt.ShortStack(st))
		}
		return out, err
	}
	for _, ms := range multisets {
		mn, mx := ms[0], ms[0]
		sum := new(big.Int)
		for _, x := range ms {
			if x < mn {
				mn = x
			}
			if x > mx {
				mx = x
			}
			sum.Add(sum, big64(x))
		}
		for _, p := range permutations(len(ms)) {
			c.eval()
			var tRows, dRows, fRows []ast.ConstSubstList
			for _, j := range p {
				tRows = append(tRows, ast.ConstSubstList{}.Extend(X, ast.Time(ms[j])))
				dRows = append(dRows, ast.ConstSubstList{}.Extend(X, ast.Duration(ms[j])))
				fRows = append(fRows, ast.ConstSubstList{}.Extend(X, ast.Float64(float64(ms[j]/1000000000))))
			}
			chk := func(sym string, rows []ast.ConstSubstList, want ast.Constant) {
				v, err := apply(sym, rows, X)
				if err != nil || oracle.Key(v) != oracle.Key(want) {
					c.fail(fmt.Sprintf("%s over rows %v = %v err=%v, want %v", sym, ms, v, err, want), ms, p)
				}
			}
			chk("fn:time:min", tRows, ast.Time(mn))
			chk("fn:time:max", tRows, ast.Time(mx))
			chk("fn:duration:min", dRows, ast.Duration(mn))
			chk("fn:duration:max", dRows, ast.Duration(mx))
			chk("fn:duration:sum", dRows, ast.Duration(wrap64(sum)))
			chk("fn:float:min", fRows, ast.Float64(float64(mn/1000000000)))
			chk("fn:float:max", fRows, ast.Float64(float64(mx/1000000000)))
			// fn:collect keeps every row: as a multiset it is the rows
			v, err := apply("fn:collect", tRows, X)
			got := map[string]int{}
			if err == nil {
				v.ListValues(func(e ast.Constant) error { got[oracle.Key(e)]++; return nil }, func() error { return nil })
			}
			want := map[string]int{}
			for _, x := range ms {
				want[oracle.Key(ast.Time(x))]++
			}
			same := err == nil && len(got) == len(want)
			for k, n := range want {
				if got[k] != n {
					same = false
				}
			}
			if !same {
				c.fail(fmt.Sprintf("fn:collect over %v = %v err=%v: as a multiset it must be the rows", ms, v, err), ms, p)
			}
		}
		// fn:collect_to_map over rows with distinct keys is the function key -> value, whatever the order
		distinct := true
		for i := range ms {
			for j := range ms {
				if i < j && ms[i] == ms[j] {
					distinct = false
				}
			}
		}
		if distinct {
			for _, p := range permutations(len(ms)) {
				c.eval()
				var rows []ast.ConstSubstList
				for _, j := range p {
					rows = append(rows, ast.ConstSubstList{}.Extend(X, ast.Number(ms[j])).Extend(Y, ast.Duration(ms[j])))
				}
				m, err := apply("fn:collect_to_map", rows, X, Y)
				if err != nil {
					c.fail(fmt.Sprintf("fn:collect_to_map over %v failed: %v", ms, err), ms, p)
					continue
				}
				n := 0
				m.MapValues(func(k, v ast.Constant) error { n++; return nil }, func() error { return nil })
				if n != len(ms) {
					c.fail(fmt.Sprintf("fn:collect_to_map over %d rows with distinct keys has %d entries: %v", len(ms), n, m), ms, p)
				}
				for _, x := range ms {
					g, err := fnApply("fn:map:get", m, ast.Number(x))
					if err != nil || oracle.Key(g) != oracle.Key(ast.Duration(x)) {
						c.fail(fmt.Sprintf("fn:map:get(fn:collect_to_map(rows), %d) = %v err=%v, want %dns", x, g, err, x), ms, p)
					}
				}
			}
		}
	}
}
