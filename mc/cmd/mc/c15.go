package main

import (
	"fmt"
	"sort"
	"strings"
	"time"

	"codeberg.org/TauCeti/mangle-go/analysis"
	"codeberg.org/TauCeti/mangle-go/ast"
	"codeberg.org/TauCeti/mangle-go/builtin"
	"codeberg.org/TauCeti/mangle-go/engine"
	"codeberg.org/TauCeti/mangle-go/factstore"
	"codeberg.org/TauCeti/mangle-go/functional"
	"codeberg.org/TauCeti/mangle-go/provenance"
	"codeberg.org/TauCeti/mangle-go/rewrite"
	"codeberg.org/TauCeti/mangle-go/unionfind"

	"verifmc/gen"
	"verifmc/mg"
	"verifmc/oracle"
	"verifmc/rt"
)

func init() { register("C15", c15) }

type c15Ctx struct {
	pi       *analysis.ProgramInfo
	store    factstore.ReadOnlyFactStore
	base     map[string]bool // keys of base facts (EDB + facts written in the program)
	ruleText map[string]bool
	// ids: content -> id, id -> content
	idOf      map[string]string
	contentOf map[string]string
}

func substOf(bs []provenance.Binding) ast.SubstMap {
	m := ast.SubstMap{}
	for _, b := range bs {
		m[b.Var] = b.Value
	}
	return m
}

func groundAtom(a ast.Atom, s ast.SubstMap) (ast.Atom, bool) {
	ev, err := functional.EvalAtom(a, s)
	if err != nil {
		return ast.Atom{}, false
	}
	for _, t := range ev.Args {
		if _, ok := t.(ast.Constant); !ok {
			return ev, false
		}
	}
	return ev, true
}

// validate checks one proof node; ancestors holds the keys of the facts on the path from the root.
// Returns (content string, problem).
func (c *c15Ctx) validate(n *provenance.ProofNode, ancestors map[string]bool, requireComplete bool) (string, string) {
	if n == nil {
		return "", "nil proof node"
	}
	fk, err := oracle.AtomKeyOf(n.Fact)
	if err != nil {
		return "", "proof node for a non-ground fact " + n.Fact.String()
	}
	if n.Partial && requireComplete {
		return "", "node for " + n.Fact.String() + " is flagged Partial"
	}
	var content string
	switch n.Kind {
	case provenance.KindEDB:
		if n.Rule == nil && n.ID != "" && strings.HasPrefix(n.ID, "/proof/partial/") {
			content = "partial:" + fk
			break
		}
		if !c.store.Contains(n.Fact) {
			return "", "EDB leaf " + n.Fact.String() + " is not in the store"
		}
		if !c.base[fk] {
			return "", "leaf " + n.Fact.String() + " is presented as a base fact but it is a derived fact (not among the base facts)"
		}
		content = "edb:" + fk
	case provenance.KindAbsence:
		if c.store.Contains(n.Fact) {
			return "", "absence leaf " + n.Fact.String() + " but the atom is in the store"
		}
		content = "absence:" + fk
	case provenance.KindDerived:
		if n.Rule == nil {
			return "", "derived node without rule for " + n.Fact.String()
		}
		if !c.ruleText[n.Rule.String()] {
			return "", "rule of the node is not a clause of the analysed program: " + n.Rule.String()
		}
		if ancestors[fk] {
			return "", "fact " + n.Fact.String() + " is its own ancestor in the proof"
		}
		s := substOf(n.Bindings)
		head, ok := groundAtom(n.Rule.Head, s)
		if !ok {
			return "", fmt.Sprintf("head %v is not ground under the reported bindings %v", n.Rule.Head, n.Bindings)
		}
		if hk, _ := oracle.AtomKeyOf(head); hk != fk {
			return "", fmt.Sprintf("node proves %v but the rule head under the reported bindings is %v", n.Fact, head)
		}
		anc := map[string]bool{fk: true}
		for k := range ancestors {
			anc[k] = true
		}
		pi := 0
		var subContents []string
		for _, lit := range n.Rule.Premises {
			switch t := lit.(type) {
			case ast.Atom:
				if t.Predicate.IsBuiltin() {
					ga, ok := groundAtom(t, s)
					if !ok {
						// output positions of built-ins may be bound only through the built-in itself
						continue
					}
					res, err := oracle.BuiltinHolds(ga)
					if err != nil {
						uf := unionfind.New()
						res, _, err = builtin.Decide(ga, &uf)
					}
					if err != nil || !res {
						return "", fmt.Sprintf("built-in literal %v does not hold under the reported bindings", ga)
					}
					continue
				}
				ga, ok := groundAtom(t, s)
				if !ok && !groundExceptWildcards(ga) {
					return "", fmt.Sprintf("body literal %v is not ground under the reported bindings %v", t, n.Bindings)
				}
				if pi >= len(n.Premises) {
					if n.Partial {
						continue
					}
					return "", fmt.Sprintf("non-partial node for %v has no premise for body literal %v", n.Fact, t)
				}
				p := n.Premises[pi]
				pk, _ := oracle.AtomKeyOf(p.Fact)
				gk, _ := oracle.AtomKeyOf(ga)
				if !ok && matchesUpToWildcards(ga, p.Fact) {
					gk = pk
				}
				if pk != gk {
					if n.Partial {
						continue
					}
					if p.Fact.Hash() == ga.Hash() && p.Fact.Predicate == ga.Predicate {
						// the explainer looked the literal up in a hash-keyed store, which answers with the other atom of
						// equal hash (the stores' known conflation, F8)
						return "", fmt.Sprintf("[hash-collision] premise %d of the node for %v is %v but the body literal under the bindings is %v (equal Atom.Hash())", pi, n.Fact, p.Fact, ga)
					}
					return "", fmt.Sprintf("premise %d of the node for %v is %v but the body literal under the bindings is %v", pi, n.Fact, p.Fact, ga)
				}
				if p.Kind == provenance.KindAbsence {
					return "", fmt.Sprintf("positive body literal %v is justified by an absence leaf", ga)
				}
				sc, prob := c.validate(p, anc, requireComplete)
				if prob != "" {
					return "", prob
				}
				subContents = append(subContents, sc)
				pi++
			case ast.NegAtom:
				ga, ok := groundAtom(t.Atom, s)
				if !ok {
					return "", fmt.Sprintf("negated literal %v is not ground under the reported bindings", t)
				}
				if c.store.Contains(ga) {
					return "", fmt.Sprintf("negated literal !%v: the atom is in the store", ga)
				}
				if pi < len(n.Premises) && n.Premises[pi].Kind == provenance.KindAbsence {
					pk, _ := oracle.AtomKeyOf(n.Premises[pi].Fact)
					gk, _ := oracle.AtomKeyOf(ga)
					if pk != gk {
						return "", fmt.Sprintf("absence premise is %v but the negated literal under the bindings is %v", n.Premises[pi].Fact, ga)
					}
					sc, prob := c.validate(n.Premises[pi], anc, requireComplete)
					if prob != "" {
						return "", prob
					}
					subContents = append(subContents, sc)
					pi++
				} else if !n.Partial {
					return "", fmt.Sprintf("non-partial node for %v has no absence leaf for %v", n.Fact, t)
				}
			case ast.Eq, ast.Ineq:
				var l, rr ast.BaseTerm
				want := true
				if e, ok := t.(ast.Eq); ok {
					l, rr = e.Left, e.Right
				} else {
					e := t.(ast.Ineq)
					l, rr = e.Left, e.Right
					want = false
				}
				lv, err1 := functional.EvalExpr(l, s)
				rv, err2 := functional.EvalExpr(rr, s)
				lc, ok1 := lv.(ast.Constant)
				rc, ok2 := rv.(ast.Constant)
				if err1 != nil || err2 != nil || !ok1 || !ok2 {
					return "", fmt.Sprintf("(in)equality %v cannot be evaluated under the reported bindings %v", t, n.Bindings)
				}
				if (oracle.Key(lc) == oracle.Key(rc)) != want {
					return "", fmt.Sprintf("(in)equality %v does not hold under the reported bindings", t)
				}
			}
		}
		if pi != len(n.Premises) {
			return "", fmt.Sprintf("node for %v has %d premises but its rule has %d atom-shaped literals matched", n.Fact, len(n.Premises), pi)
		}
		content = "derived:" + n.Rule.String() + ":" + fk + "[" + strings.Join(subContents, ";") + "]"
	default:
		// let / do nodes (recorded mode with transforms)
		if !c.store.Contains(n.Fact) {
			return "", "transform node for a fact that is not in the store: " + n.Fact.String()
		}
		// the rule a transform node names is a rule of the program (as written, or as the rewriter leaves it), with its transform
		if !c.ruleText[n.Rule.String()] {
			return "", fmt.Sprintf("the transform node for %v names the rule %q, which is not a rule of the program", n.Fact, n.Rule.String())
		}
		if n.Rule.Transform == nil {
			return "", fmt.Sprintf("the transform node for %v names a rule without a transform: %q", n.Fact, n.Rule.String())
		}
		if n.Kind == provenance.KindDoAggregate && !n.Partial {
			if prob := c.checkDoAggregate(n); prob != "" {
				return "", prob
			}
		}
		var subs []string
		for _, p := range n.Premises {
			sc, prob := c.validate(p, ancestors, false)
			if prob != "" {
				return "", prob
			}
			subs = append(subs, sc)
		}
		content = fmt.Sprintf("transform%d:%s:%s[%s]", n.Kind, n.Rule.String(), fk, strings.Join(subs, ";")) // the rule is part of what a node says
	}
	// identifiers depend only on content
	if n.ID == "" {
		return "", "proof node without identifier for " + n.Fact.String()
	}
	if prev, ok := c.idOf[content]; ok && prev != n.ID {
		return "", fmt.Sprintf("two proof nodes with the same content have different identifiers (%s, %s)", prev, n.ID)
	}
	if prev, ok := c.contentOf[n.ID]; ok && prev != content {
		return "", fmt.Sprintf("identifier %s is used for two different proofs:\n  %s\n  %s", n.ID, prev, content)
	}
	c.idOf[content] = n.ID
	c.contentOf[n.ID] = content
	return content, ""
}

func c15(r *rt.Run) {
	r.Assumptions = []string{
		"proof checker written independently of the explainer: head/body literals are re-instantiated from the reported bindings and compared with the premises; (in)equalities and built-ins re-evaluated; leaves checked against the store and the set of base facts",
		"existence of a complete proof is demanded for transform-free programs at the default depth; same pools and bounds as C01 (EDBs thinned in the quick tier)",
	}
	if r.Replay != "" {
		_, w := rt.ReadReplay(r.Replay)
		c15Case(r, fmt.Sprint(w["source"]), toStrings(w["edb"]), true)
		r.Finish("replay")
	}
	r.SetBudget(240*time.Second, 3000*time.Second)
	progs := evalPrograms(r.Thorough())
	r.Extra["programs_enumerated"] = len(progs)
	rt.ForRange(len(progs), func(i int) {
		if r.Expired("C15 enumeration") {
			return
		}
		ps := progs[i]
		src := ps.source()
		stride := 1
		if !r.Thorough() {
			stride = 5
			if ps.pool.Name == "R" || ps.pool.Name == "B" {
				stride = 2
			}
			if ps.pool.Name == "L" || ps.pool.Name == "M" || ps.pool.Name == "S" {
				stride = 1
			}
		}
		for ei := i % stride; ei < len(ps.pool.EDBs); ei += stride {
			c15Case(r, src, ps.pool.EDBs[ei], (i+ei)%4 == 0)
		}
	})
	// goals whose atoms have equal hashes without being equal (a two-element list and the pair of the same elements, a
	// one-element list and a number): explanations must keep them apart. These three-rule programs are beyond the quick
	// tier's subsets of pool B, so they are named here.
	for _, src := range []string{
		"Decl n(A).\nDecl k(A,B).\nc(P) :- n(X), P = fn:list(X, X).\nc(P) :- n(X) |> let P = fn:pair(X, X).\nd(X,Y) :- c(P), :match_pair(P, X, Y).\n",
		"Decl n(A).\nDecl k(A,B).\nc(P) :- n(X), P = fn:pair(X, X).\nc(P) :- n(X), P = fn:list(X, X).\nd(X,Y) :- c(P), :match_cons(P, X, T), :match_cons(T, Y, _).\n",
		"Decl n(A).\nDecl k(A,B).\nc(P) :- n(X), P = [1].\nc(65792) :- n(X).\nd(X) :- c(P), :match_cons(P, X, _).\nd(P) :- c(P), P > 5.\n",
	} {
		for _, edb := range [][]string{{"n(0)"}, {"n(0)", "n(1)"}, {"n(1)", "k(1,2)"}} {
			c15Case(r, src, edb, true)
		}
	}
	// programs with do-transforms (recorded mode): every aggregating rule of pool A over count and sum, single-atom bodies
	// (incl. a repeated variable), multi-atom bodies and bodies over the closure t
	ar := gen.AggRules([]string{"fn:count()", "fn:sum(V)"})
	aEDBs := gen.AggEDBs(3, [][]int{{}, {1, 2}})
	rt.ForRange(len(ar), func(i int) {
		src := gen.AggDecls
		if ar[i].UsesT {
			src += gen.AggTC
		}
		src += ar[i].Text + "\n"
		for ei, e := range aEDBs {
			if r.Thorough() || (i+ei)%3 == 0 {
				c15Case(r, src, e, false)
			}
		}
	})
	r.Finish("every <=k-rule program of pools G,R,N,M,L,S,B x pool EDBs (quick: every 2nd-5th EDB); after evaluation EVERY stored fact is a goal for provenance.Explain (MaxProofs 1 and 3; MaxDepth default and, for a quarter of the cases, 2) and for BuildFromRecording; " +
		"each proof is validated by an independent checker (aggregate nodes of do-transforms: the inputs must be exactly the stored instances of the body atom in the node's group); recorder on/off store equality; identifier/content bijection per run; non-trivial = cases with at least one derived fact")
}

// checkDoAggregate: the premises of an aggregate node must be exactly the stored facts that are instances of the
// rule's body atom (constants and repeated variables respected) and agree with the node's group key on the
// group-by variables; count and sum in the head must be those of these facts.
func (c *c15Ctx) checkDoAggregate(n *provenance.ProofNode) string {
	if n.Rule == nil || n.Rule.Transform == nil || len(n.Rule.Premises) != 1 || len(n.Rule.Transform.Statements) == 0 {
		return ""
	}
	body, ok := n.Rule.Premises[0].(ast.Atom)
	if !ok || body.Predicate.IsBuiltin() {
		return ""
	}
	gb := n.Rule.Transform.Statements[0].Fn
	if gb.Function.Symbol != "fn:group_by" {
		return ""
	}
	match := func(f ast.Atom) (map[string]ast.Constant, bool) {
		if f.Predicate != body.Predicate || len(f.Args) != len(body.Args) {
			return nil, false
		}
		env := map[string]ast.Constant{}
		for i, t := range body.Args {
			fc, ok := f.Args[i].(ast.Constant)
			if !ok {
				return nil, false
			}
			switch x := t.(type) {
			case ast.Constant:
				if oracle.Key(x) != oracle.Key(fc) {
					return nil, false
				}
			case ast.Variable:
				if x.Symbol == "_" {
					continue
				}
				if prev, bound := env[x.Symbol]; bound && oracle.Key(prev) != oracle.Key(fc) {
					return nil, false
				}
				env[x.Symbol] = fc
			default:
				return nil, false
			}
		}
		return env, true
	}
	inGroup := func(env map[string]ast.Constant) bool {
		if len(gb.Args) != len(n.GroupKey) {
			return false
		}
		for i, a := range gb.Args {
			v, ok := a.(ast.Variable)
			if !ok {
				return false
			}
			val, bound := env[v.Symbol]
			if !bound || oracle.Key(val) != oracle.Key(n.GroupKey[i]) {
				return false
			}
		}
		return true
	}
	want := map[string]bool{}
	c.store.GetFacts(ast.NewQuery(body.Predicate), func(f ast.Atom) error {
		if env, ok := match(f); ok && inGroup(env) {
			k, _ := oracle.AtomKeyOf(f)
			want[k] = true
		}
		return nil
	})
	got := map[string]bool{}
	for _, p := range n.Premises {
		env, ok := match(p.Fact)
		if !ok {
			return fmt.Sprintf("aggregate node for %v: input fact %v is not an instance of the body literal %v", n.Fact, p.Fact, body)
		}
		if !inGroup(env) {
			return fmt.Sprintf("aggregate node for %v: input fact %v does not belong to the group with key %v", n.Fact, p.Fact, n.GroupKey)
		}
		k, _ := oracle.AtomKeyOf(p.Fact)
		got[k] = true
	}
	for k := range want {
		if !got[k] {
			return fmt.Sprintf("aggregate node for %v: the stored fact %s belongs to the group but is not among the inputs", n.Fact, k)
		}
	}
	return ""
}

func c15Case(r *rt.Run, src string, edbText []string, deep bool) {
	u, err := mg.Parse(src)
	if err != nil {
		return
	}
	transformFree := !hasTransform(u.Clauses)
	pi, err := mg.Analyze(src)
	if err != nil {
		r.Add("programs_rejected_by_analysis", 1)
		return
	}
	edb, err := mg.ParseAtoms(edbText)
	if err != nil {
		panic(err)
	}
	w := map[string]any{"source": src, "edb": edbText}
	store := factstore.NewMultiIndexedArrayInMemoryStore()
	for _, a := range edb {
		store.Add(a)
	}
	rec := provenance.NewMemoryRecorder()
	storeRec := factstore.NewMultiIndexedArrayInMemoryStore()
	for _, a := range edb {
		storeRec.Add(a)
	}
	var e1, e2 error
	pv, st := rt.Try(func() {
		e1 = mg.Eval(pi, store)
		e2 = mg.Eval(pi, storeRec, engine.WithDerivationRecorder(rec))
	})
	r.Add("states", 1)
	r.Add("transitions", 2)
	if pv != nil {
		r.Violate("panic", fmt.Sprintf("%v at %s", pv, rt.ShortStack(st)), w)
		return
	}
	if e1 != nil || e2 != nil {
		if (e1 == nil) != (e2 == nil) {
			r.Violate("recorder-changes-outcome", fmt.Sprintf("without recorder err=%v, with recorder err=%v", e1, e2), w)
		}
		return
	}
	k1, _, _ := mg.Canon(store)
	k2, _, _ := mg.Canon(storeRec)
	if strings.Join(k1, "|") != strings.Join(k2, "|") {
		a, b := mg.Diff(k1, k2)
		r.Violate("recorder-changes-result", fmt.Sprintf("only without recorder: %s; only with recorder: %s", mg.Short(a), mg.Short(b)), w)
		return
	}
	base := map[string]bool{}
	for _, a := range edb {
		k, _ := oracle.AtomKeyOf(a)
		base[k] = true
	}
	for _, f := range pi.InitialFacts {
		if k, err := oracle.AtomKeyOf(f); err == nil {
			base[k] = true
		}
	}
	ruleText := map[string]bool{}
	for _, rule := range pi.Rules {
		ruleText[rule.String()] = true
	}
	// evaluation splits a multi-premise aggregating rule into an internal relation and an aggregating rule over it;
	// proofs recorded during evaluation refer to these clauses, which are accepted as clauses of the program
	for _, rule := range rewrite.Rewrite(analysis.Program{EdbPredicates: pi.EdbPredicates, IdbPredicates: pi.IdbPredicates, Rules: pi.Rules}).Rules {
		ruleText[rule.String()] = true
	}
	ctx := &c15Ctx{pi, store, base, ruleText, map[string]string{}, map[string]string{}}
	ctxRec := &c15Ctx{pi, storeRec, base, ruleText, map[string]string{}, map[string]string{}}
	facts := mg.Atoms(store)
	sort.Slice(facts, func(i, j int) bool { return facts[i].String() < facts[j].String() })
	derived := 0
	for _, goal := range facts {
		gk, _ := oracle.AtomKeyOf(goal)
		if _, e := pi.EdbPredicates[goal.Predicate]; !e {
			if _, i := pi.IdbPredicates[goal.Predicate]; !i {
				continue // a stored fact of a predicate the program never mentions is outside what the explainer is given
			}
		}
		if !base[gk] {
			derived++
		}
		type optCase struct {
			o        provenance.Options
			complete bool
		}
		opts := []optCase{{provenance.Options{}, true}, {provenance.Options{MaxProofs: 3}, true}}
		if deep {
			opts = append(opts, optCase{provenance.Options{MaxProofs: 2, MaxDepth: 2}, false})
		}
		for _, oc := range opts {
			for mode := 0; mode < 2; mode++ {
				if mode == 1 && oc.o.MaxDepth != 0 {
					continue
				}
				r.Add("evaluations", 1)
				r.Add("transitions", 1)
				var proofs []*provenance.ProofNode
				var perr error
				c := ctx
				modeName := "explain"
				pv, st := rt.Try(func() {
					if mode == 0 {
						proofs, perr = provenance.Explain(pi, store, goal, oc.o)
					} else {
						c = ctxRec
						modeName = "recording"
						proofs, perr = provenance.BuildFromRecording(rec, storeRec, goal, oc.o)
					}
				})
				w2 := map[string]any{"source": src, "edb": edbText, "goal": goal.String(), "mode": modeName, "max_proofs": oc.o.MaxProofs, "max_depth": oc.o.MaxDepth}
				if pv != nil {
					r.Violate("panic-"+modeName, fmt.Sprintf("goal %v: %v at %s", goal, pv, rt.ShortStack(st)), w2)
					continue
				}
				r.Add("traces_validated_against_impl", 1)
				if perr != nil || len(proofs) == 0 {
					if transformFree && oc.complete {
						kind := "no-proof-" + modeName
						switch {
						case base[gk] && !isEDBPred(pi, goal.Predicate):
							kind += "-base-fact-of-predicate-with-rules"
						case dependsOnRecursion(pi, goal.Predicate):
							kind += "-goal-depends-on-recursive-predicate"
						}
						r.Violate(kind, fmt.Sprintf("stored fact %v has no proof (%v)\n%s edb=%v", goal, perr, strings.TrimSpace(src), edbText), w2)
					}
					continue
				}
				if oc.o.MaxProofs == 0 && len(proofs) > 1 || oc.o.MaxProofs > 0 && len(proofs) > oc.o.MaxProofs {
					r.Violate("too-many-proofs", fmt.Sprintf("goal %v: %d proofs returned with MaxProofs=%d", goal, len(proofs), oc.o.MaxProofs), w2)
				}
				complete := false
				for _, p := range proofs {
					pk, _ := oracle.AtomKeyOf(p.Fact)
					if pk != gk {
						r.Violate("proof-for-other-fact-"+modeName, fmt.Sprintf("goal %v: proof root is %v", goal, p.Fact), w2)
						continue
					}
					_, prob := c.validate(p, map[string]bool{}, false)
					if prob != "" {
						kind := "invalid-proof-" + modeName
						if strings.HasPrefix(prob, "[hash-collision]") {
							kind += "-hash-collision"
						}
						r.Violate(kind, fmt.Sprintf("goal %v: %s\n%s edb=%v", goal, prob, strings.TrimSpace(src), edbText), w2)
						continue
					}
					if !anyPartial(p) {
						complete = true
					}
				}
				if transformFree && oc.complete && !complete {
					kind := "no-complete-proof-" + modeName
					if dependsOnRecursion(pi, goal.Predicate) {
						kind += "-goal-depends-on-recursive-predicate"
					}
					r.Violate(kind, fmt.Sprintf("stored fact %v has only partial proofs at the default depth\n%s edb=%v", goal, strings.TrimSpace(src), edbText), w2)
				}
			}
		}
	}
	if derived > 0 {
		r.Add("distinct_nontrivial", 1)
		if r.SampleN() < 5 && derived > 3 {
			r.Sample(map[string]any{"source": src, "edb": edbText, "goals": len(facts)})
		}
	}
	r.Outcome(fmt.Sprint(len(facts), derived))
}

func anyPartial(n *provenance.ProofNode) bool {
	if n.Partial {
		return true
	}
	for _, p := range n.Premises {
		if anyPartial(p) {
			return true
		}
	}
	return false
}

func isEDBPred(pi *analysis.ProgramInfo, p ast.PredicateSym) bool {
	_, ok := pi.EdbPredicates[p]
	return ok
}

// usesBuiltinAtom reports whether some rule has a built-in atom or an equality that binds a variable.
func usesBuiltinAtom(pi *analysis.ProgramInfo) bool {
	for _, rule := range pi.Rules {
		for _, p := range rule.Premises {
			switch t := p.(type) {
			case ast.Atom:
				if t.Predicate.IsBuiltin() {
					return true
				}
			case ast.Eq:
				return true
			}
		}
	}
	return false
}

func groundExceptWildcards(a ast.Atom) bool {
	for _, t := range a.Args {
		if v, ok := t.(ast.Variable); ok && v.Symbol != "_" {
			return false
		}
		if _, ok := t.(ast.ApplyFn); ok {
			return false
		}
	}
	return true
}

func matchesUpToWildcards(pattern, fact ast.Atom) bool {
	if pattern.Predicate != fact.Predicate || len(pattern.Args) != len(fact.Args) {
		return false
	}
	for i, t := range pattern.Args {
		if c, ok := t.(ast.Constant); ok {
			fc, ok2 := fact.Args[i].(ast.Constant)
			if !ok2 || oracle.Key(c) != oracle.Key(fc) {
				return false
			}
		}
	}
	return true
}

// dependsOnRecursion reports whether pred reaches (through rule bodies) a predicate that reaches itself.
func dependsOnRecursion(pi *analysis.ProgramInfo, pred ast.PredicateSym) bool {
	edges := map[ast.PredicateSym]map[ast.PredicateSym]bool{}
	for _, rule := range pi.Rules {
		h := rule.Head.Predicate
		if edges[h] == nil {
			edges[h] = map[ast.PredicateSym]bool{}
		}
		for _, p := range rule.Premises {
			switch t := p.(type) {
			case ast.Atom:
				if !t.Predicate.IsBuiltin() {
					edges[h][t.Predicate] = true
				}
			case ast.NegAtom:
				edges[h][t.Atom.Predicate] = true
			}
		}
	}
	reach := func(from ast.PredicateSym) map[ast.PredicateSym]bool {
		seen := map[ast.PredicateSym]bool{}
		var visit func(p ast.PredicateSym)
		visit = func(p ast.PredicateSym) {
			for q := range edges[p] {
				if !seen[q] {
					seen[q] = true
					visit(q)
				}
			}
		}
		visit(from)
		return seen
	}
	r0 := reach(pred)
	r0[pred] = true
	for p := range r0 {
		if reach(p)[p] {
			return true
		}
	}
	return false
}
