package main

import (
	"errors"
	"fmt"
	"strings"
	"time"

	"codeberg.org/TauCeti/mangle-go/analysis"
	"codeberg.org/TauCeti/mangle-go/ast"

	"verifmc/gen"
	"verifmc/mg"
	"verifmc/oracle"
	"verifmc/rt"
)

func init() { register("C01", c01) }

// programs of a pool: all rule subsets up to k (plus frames)
type progSpec struct {
	pool  *gen.Pool
	rules []int
}

func (p progSpec) source() string { return gen.Program{Pool: p.pool, Rules: p.rules}.Source() }

func recIdx(p *gen.Pool) []int {
	var out []int
	for i, t := range p.Tags {
		if t == "rec" {
			out = append(out, i)
		}
	}
	return out
}

func subsetOf(p *gen.Pool, idx []int, maxK int, must []int) []progSpec {
	// subsets over the index list idx
	var out []progSpec
	for _, s := range gen.Subsets(len(idx), maxK, nil) {
		rules := append([]int{}, must...)
		for _, i := range s {
			rules = append(rules, idx[i])
		}
		out = append(out, progSpec{p, rules})
	}
	return out
}

func allIdx(p *gen.Pool) []int {
	out := make([]int, len(p.Rules))
	for i := range out {
		out[i] = i
	}
	return out
}

func without(idx []int, drop ...int) []int {
	var out []int
	for _, i := range idx {
		keep := true
		for _, d := range drop {
			if i == d {
				keep = false
			}
		}
		if keep {
			out = append(out, i)
		}
	}
	return out
}

// evalPrograms is the program space shared by C01, C15 and C20.
func evalPrograms(thorough bool) []progSpec {
	var out []progSpec
	g := gen.PoolG(3)
	if thorough {
		g = gen.PoolG(9)
	}
	out = append(out, subsetOf(g, allIdx(g), 2, nil)...)
	if thorough {
		// three-rule programs over the recursive shapes of head p plus everything of size 3 containing a base rule
		rec := recIdx(g)
		for _, s := range gen.Subsets(len(rec), 2, nil) {
			if len(s) != 2 {
				continue
			}
			for _, base := range []int{0, len(g.Rules) / 2} {
				out = append(out, progSpec{g, []int{base, rec[s[0]], rec[s[1]]}})
			}
		}
	}
	r := gen.PoolR()
	rest := without(allIdx(r), 0, 1)
	// seeds l(X):-l0(X), r(X):-r0(X) are always present; up to k further rules
	kR := 3
	out = append(out, subsetOf(r, rest, kR, []int{0, 1})...)
	// frame: both step rules present, three more rules
	stepL, stepR := -1, -1
	for i, s := range r.Rules {
		if s == "l(Y) :- l(X), s(X,Y)." {
			stepL = i
		}
		if s == "r(Y) :- r(X), s(X,Y)." {
			stepR = i
		}
	}
	kF := 3
	if thorough {
		kF = 4
	}
	rest2 := without(rest, stepL, stepR)
	for _, s := range gen.Subsets(len(rest2), kF, nil) {
		if len(s) < 3 {
			continue // already covered by the <=3 enumeration above when small
		}
		rules := []int{0, 1, stepL, stepR}
		for _, i := range s {
			rules = append(rules, rest2[i])
		}
		out = append(out, progSpec{r, rules})
	}
	n := gen.PoolN()
	kN := 2
	if thorough {
		kN = 3
	}
	out = append(out, subsetOf(n, allIdx(n), kN, nil)...)
	m := gen.PoolM()
	out = append(out, subsetOf(m, allIdx(m), 3, nil)...)
	l := gen.PoolL()
	out = append(out, subsetOf(l, allIdx(l), 3, nil)...)
	sp := gen.PoolS()
	out = append(out, subsetOf(sp, allIdx(sp), 3, nil)...)
	b := gen.PoolB()
	kB := 2
	if thorough {
		kB = 3
	}
	out = append(out, subsetOf(b, allIdx(b), kB, nil)...)
	return out
}

type parsedProg struct {
	src     string
	clauses []ast.Clause // as written, for the oracle
	pi      *analysis.ProgramInfo
	err     error
	panicV  any
	stack   string
}

func prepare(src string) parsedProg {
	pp := parsedProg{src: src}
	u, err := mg.Parse(src)
	if err != nil {
		pp.err = fmt.Errorf("parse: %w", err)
		return pp
	}
	pp.clauses = u.Clauses
	pv, st := rt.Try(func() { pp.pi, pp.err = mg.Analyze(src) })
	pp.panicV, pp.stack = pv, st
	return pp
}

func c01(r *rt.Run) {
	r.Assumptions = []string{
		"reference semantics: verifmc/oracle (set-based stratified naive evaluator over clauses as written)",
		"small scope: <=3-5 rules, arity<=2, domains of 3-6 constants",
		"a ProgramInfo is reused read-only for several EDBs (cross-checked by the text path: EDB written as facts in the source)",
	}
	if r.Replay != "" {
		_, w := rt.ReadReplay(r.Replay)
		c01Case(r, fmt.Sprint(w["source"]), toStrings(w["edb"]), []string{fmt.Sprint(w["store"])}, fmt.Sprint(w["path"]) == "text")
		r.Finish("replay")
	}
	r.SetBudget(240*time.Second, 3000*time.Second)
	progs := evalPrograms(r.Thorough())
	kinds := []string{"multiarray", "simple"}
	if r.Thorough() {
		kinds = mg.StoreKinds
	}
	r.Extra["programs_enumerated"] = len(progs)
	r.Extra["store_kinds"] = kinds
	rt.ForRange(len(progs), func(i int) {
		if r.Expired("C01 program enumeration") {
			r.Add("programs_skipped_by_budget", 1)
			return
		}
		c01Program(r, progs[i], kinds, i)
	})
	r.Finish("every subset of <=k rules of pools G (graph), R (rounds), N (negation), M (predicates with inline facts before/after their rules), L (bodies of 4-8 literals), S (structured values built by rules meeting separately constructed equal values), B (built-ins) x every EDB of the pool x store kinds; " +
		"non-trivial = reference model needs >=3 rounds in a stratum, or has >=2 strata with a non-empty derived relation; distinct by construction (program,EDB)")
}

func toStrings(x any) []string {
	var out []string
	if xs, ok := x.([]any); ok {
		for _, s := range xs {
			out = append(out, fmt.Sprint(s))
		}
	}
	return out
}

func c01Program(r *rt.Run, ps progSpec, kinds []string, ordinal int) {
	src := ps.source()
	pp := prepare(src)
	r.Add("programs", 1)
	if pp.panicV != nil {
		r.Violate("analysis-panic", fmt.Sprintf("analysis panicked: %v at %s", pp.panicV, rt.ShortStack(pp.stack)), map[string]any{"source": src})
		return
	}
	if pp.err != nil {
		r.Add("programs_rejected_by_analysis", 1)
		return
	}
	for ei, edbText := range ps.pool.EDBs {
		edb, err := mg.ParseAtoms(edbText)
		if err != nil {
			panic(err)
		}
		textPath := (ordinal+ei)%97 == 0
		c01Eval(r, pp, edbText, edb, kinds, textPath)
	}
}

// c01Case re-runs one case from source text (used by replay).
func c01Case(r *rt.Run, src string, edbText []string, kinds []string, textPath bool) {
	pp := prepare(src)
	if pp.err != nil || pp.panicV != nil {
		fmt.Printf("replay: analysis result: err=%v panic=%v\n", pp.err, pp.panicV)
		return
	}
	edb, err := mg.ParseAtoms(edbText)
	if err != nil {
		panic(err)
	}
	c01Eval(r, pp, edbText, edb, kinds, textPath)
}

func c01Eval(r *rt.Run, pp parsedProg, edbText []string, edb []ast.Atom, kinds []string, textPath bool) {
	ref, rerr := oracle.Eval(pp.clauses, edb, oracle.Config{MaxRounds: 200, MaxFacts: 20000})
	if errors.Is(rerr, oracle.ErrUnsupported) || errors.Is(rerr, oracle.ErrEvalError) || errors.Is(rerr, oracle.ErrDiverged) {
		r.Add("cases_outside_reference_fragment", 1)
		return
	}
	r.Add("states", 1)
	wit := func(kind string) map[string]any {
		return map[string]any{"source": pp.src, "edb": edbText, "store": kind}
	}
	var want []string
	if rerr == nil {
		want = ref.DB.Canon()
		if ref.MaxRounds >= 3 || (ref.Strata >= 2 && ref.DB.Size() > len(edb)) {
			r.Add("distinct_nontrivial", 1)
			if ref.MaxRounds >= 3 {
				r.Add("cases_needing_3plus_rounds", 1)
			}
			if ref.RecursiveSCC2 {
				r.Add("cases_with_mutual_recursion", 1)
			}
		}
		r.Outcome(strings.Join(want, "|"))
	}
	if r.SampleN() < 6 && rerr == nil && ref.MaxRounds >= 3 {
		r.Sample(map[string]any{"source": pp.src, "edb": edbText, "reference_model_size": len(want), "rounds": ref.MaxRounds})
	}
	for _, kind := range kinds {
		var got []string
		var dups int
		var nonGround []string
		var everr error
		pi := pp.pi
		pv, st := rt.Try(func() {
			store := mg.NewStoreWithEDB(kind, edb)
			everr = mg.Eval(pi, store)
			got, dups, nonGround = mg.Canon(store)
		})
		_ = dups
		r.Add("transitions", 1)
		r.Add("evaluations", 1)
		r.Add("traces_validated_against_impl", 1)
		w := wit(kind)
		switch {
		case pv != nil:
			r.Violate("eval-panic", fmt.Sprintf("evaluation panicked: %v at %s", pv, rt.ShortStack(st)), w)
			continue
		case rerr != nil && errors.Is(rerr, oracle.ErrUnstratifiable):
			if everr == nil {
				r.Violate("unstratifiable-evaluated", "reference: program is not stratifiable, engine evaluated it without error", w)
			}
			continue
		case rerr != nil && errors.Is(rerr, oracle.ErrUnsafe):
			r.Violate("unsafe-accepted", "analysis accepted a clause the reference cannot evaluate in any order (unbound variable)", w)
			continue
		case rerr != nil:
			panic(rerr)
		case everr != nil:
			r.Violate("eval-error", "evaluation of an accepted program over total operations returned an error: "+everr.Error(), w)
			continue
		}
		if len(nonGround) > 0 {
			r.Violate("non-ground-fact", "store holds non-ground atoms: "+mg.Short(nonGround), w)
		}
		missing, extra := mg.Diff(want, got)
		if len(missing) > 0 {
			pairs := hashCollisionPartners(ref.DB, missing)
			if pairs == nil && hashKeyedStore(kind) && len(extra) == 0 {
				// facts derived from a conflated fact are missing too: attribute when the model itself holds a colliding pair
				pairs = modelCollisions(ref.DB)
			}
			if pairs != nil {
				w["colliding"] = pairs
				r.Violate("missing-facts-hash-collision", fmt.Sprintf("store lacks %s; each has the same Atom.Hash() as another fact of the model: %v", mg.Short(missing), pairs), w)
				continue
			}
			r.Violate("missing-facts", fmt.Sprintf("incomplete: reference model has %d facts the store lacks: %s", len(missing), mg.Short(missing)), w)
		}
		if len(extra) > 0 {
			r.Violate("extra-facts", fmt.Sprintf("unsound: store has %d facts not in the reference model: %s", len(extra), mg.Short(extra)), w)
		}
	}
	if textPath && rerr == nil {
		// second variant: the EDB written as facts in the program text, full re-parse
		src := pp.src
		for _, f := range edbText {
			src += f + ".\n"
		}
		var got []string
		var everr error
		pv, st := rt.Try(func() {
			pi, err := mg.Analyze(src)
			if err != nil {
				everr = err
				return
			}
			store := mg.NewStore("multiarray")
			everr = mg.Eval(pi, store)
			got, _, _ = mg.Canon(store)
		})
		r.Add("text_path_cases", 1)
		w := map[string]any{"source": pp.src, "edb": edbText, "store": "multiarray", "path": "text"}
		if pv != nil {
			r.Violate("eval-panic", fmt.Sprintf("panicked: %v at %s", pv, rt.ShortStack(st)), w)
		} else if everr != nil {
			r.Violate("text-path-error", "program with EDB as text was rejected/failed: "+everr.Error(), w)
		} else if missing, extra := mg.Diff(want, got); len(missing)+len(extra) > 0 {
			r.Violate("text-path-differs", fmt.Sprintf("EDB-as-text evaluation differs from reference: missing %s extra %s", mg.Short(missing), mg.Short(extra)), w)
		}
	}
}

// hashCollisionPartners returns, if EVERY missing fact has a structurally different fact of the
// same predicate in the model with an equal Atom.Hash(), the list of such pairs; else nil.
func hashCollisionPartners(db oracle.DB, missing []string) []string {
	atoms := db.Atoms()
	byKey := map[string]ast.Atom{}
	for _, a := range atoms {
		k, _ := oracle.AtomKeyOf(a)
		byKey[k] = a
	}
	var pairs []string
	for _, m := range missing {
		a, ok := byKey[m]
		if !ok {
			return nil
		}
		found := false
		for k, b := range byKey {
			if k != m && b.Predicate == a.Predicate && b.Hash() == a.Hash() {
				pairs = append(pairs, a.String()+" ~ "+b.String())
				found = true
				break
			}
		}
		if !found {
			return nil
		}
	}
	return pairs
}

// modelCollisions lists pairs of structurally different facts of one predicate with equal Atom.Hash()
// in the reference model (the situation in which hash-keyed stores misbehave: known finding F8).
func modelCollisions(db oracle.DB) []string {
	byHash := map[string][]ast.Atom{}
	for _, a := range db.Atoms() {
		k := fmt.Sprintf("%s/%d#%x", a.Predicate.Symbol, a.Predicate.Arity, a.Hash())
		byHash[k] = append(byHash[k], a)
	}
	var out []string
	for _, as := range byHash {
		if len(as) > 1 {
			out = append(out, as[0].String()+" ~ "+as[1].String())
		}
	}
	return out
}

func hashKeyedStore(kind string) bool {
	return kind == "simple" || kind == "indexed" || kind == "multi" || kind == "teeing-empty" || kind == "teeing-base"
}
