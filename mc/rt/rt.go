// Package rt is the shared runtime of the checks: counters, samples, violation
// bookkeeping, known-finding attribution, evidence and replay files, parallel drivers.
package rt

import (
	"crypto/sha1"
	"encoding/json"
	"fmt"
	"os"
	"path/filepath"
	"regexp"
	"runtime"
	"runtime/debug"
	"sort"
	"strconv"
	"strings"
	"sync"
	"sync/atomic"
	"time"
)

// OutDir is where a run writes evidence/ and replays/ (and finds bin/): the verification tree itself for the
// registered commands, a directory of its own when ./check runs against a snapshot (VERIF_REPO).
var OutDir = func() string {
	if d := os.Getenv("VERIF_OUT"); d != "" {
		return d
	}
	if d := os.Getenv("VERIF_DIR"); d != "" {
		return d
	}
	return "/verif"
}()

// VerifDir is the root of the verification tree.
var VerifDir = func() string {
	if d := os.Getenv("VERIF_DIR"); d != "" {
		return d
	}
	return "/verif"
}()

// Violation is one witnessed failure of a property.
type Violation struct {
	Kind    string         `json:"kind"`    // narrow classification computed by the check
	Detail  string         `json:"detail"`  // human readable
	Witness map[string]any `json:"witness"` // enough to replay the case
}

// Finding is an entry of KNOWN_FINDINGS.json.
type Finding struct {
	ID       string            `json:"id"`
	Property string            `json:"property"`
	Props    []string          `json:"properties,omitempty"`
	Status   string            `json:"status"` // open | fixed
	Kind     string            `json:"kind"`
	Match    map[string]string `json:"match,omitempty"` // witness field -> anchored regexp
	What     string            `json:"what"`
	Site     string            `json:"site,omitempty"`
	Witness  any               `json:"witness,omitempty"`
	Commit   string            `json:"commit,omitempty"`
}

// Run collects what one check execution covered.
type Run struct {
	Prop   string
	Tier   string
	Seed   int
	Replay string // path of a replay file, when replaying
	start  time.Time
	budget time.Duration

	mu          sync.Mutex
	counters    map[string]*int64
	samples     []any
	sampleCap   int
	byKind      map[string][]Violation
	kindCount   map[string]int64
	outcomes    map[string]struct{}
	nontrivial  map[string]struct{}
	states      map[string]struct{}
	findings    []Finding
	Assumptions []string
	exhaustive  bool
	capNotes    []string
	Extra       map[string]any
}

// New creates the run for a property; tier comes from argv/VERIF_TIER.
func New(prop, tier string) *Run {
	if tier == "" {
		tier = os.Getenv("VERIF_TIER")
	}
	if tier != "thorough" {
		tier = "quick"
	}
	seed, _ := strconv.Atoi(os.Getenv("VERIF_SEED"))
	r := &Run{Prop: prop, Tier: tier, Seed: seed, start: time.Now(),
		counters: map[string]*int64{}, sampleCap: 12, byKind: map[string][]Violation{},
		kindCount: map[string]int64{}, outcomes: map[string]struct{}{}, nontrivial: map[string]struct{}{},
		states: map[string]struct{}{}, exhaustive: true, Extra: map[string]any{}}
	r.findings = LoadFindings(prop)
	return r
}

// LoadFindings reads the committed known-findings file (never written at run time).
func LoadFindings(prop string) []Finding {
	b, err := os.ReadFile(filepath.Join(VerifDir, "KNOWN_FINDINGS.json"))
	if err != nil {
		return nil
	}
	var doc struct {
		Findings []Finding `json:"findings"`
	}
	if err := json.Unmarshal(b, &doc); err != nil {
		fmt.Fprintf(os.Stderr, "harness error: KNOWN_FINDINGS.json: %v\n", err)
		os.Exit(2)
	}
	var out []Finding
	for _, f := range doc.Findings {
		if f.Property == prop {
			out = append(out, f)
			continue
		}
		for _, p := range f.Props {
			if p == prop {
				out = append(out, f)
				break
			}
		}
	}
	return out
}

func (r *Run) Thorough() bool { return r.Tier == "thorough" }

// SetBudget sets the wall-clock budget after which Expired reports true.
func (r *Run) SetBudget(quick, thorough time.Duration) {
	r.budget = quick
	if r.Thorough() {
		r.budget = thorough
	}
	if s := os.Getenv("VERIF_BUDGET_S"); s != "" {
		if n, err := strconv.Atoi(s); err == nil {
			r.budget = time.Duration(n) * time.Second
		}
	}
}

// Expired reports whether the budget is used up; the first time it is, the run is
// marked non-exhaustive with the note.
func (r *Run) Expired(note string) bool {
	if r.budget == 0 || time.Since(r.start) < r.budget {
		return false
	}
	r.Capped("time budget reached: " + note)
	return true
}

// Capped records that part of the space was not completed.
func (r *Run) Capped(note string) {
	r.mu.Lock()
	defer r.mu.Unlock()
	r.exhaustive = false
	for _, n := range r.capNotes {
		if n == note {
			return
		}
	}
	if len(r.capNotes) < 20 {
		r.capNotes = append(r.capNotes, note)
	}
}

// C returns the atomic counter with the given name.
func (r *Run) C(name string) *int64 {
	r.mu.Lock()
	defer r.mu.Unlock()
	p, ok := r.counters[name]
	if !ok {
		p = new(int64)
		r.counters[name] = p
	}
	return p
}

func (r *Run) Add(name string, n int64) { atomic.AddInt64(r.C(name), n) }
func (r *Run) Get(name string) int64    { return atomic.LoadInt64(r.C(name)) }

// Sample keeps a few written-out cases for the evidence file.
func (r *Run) Sample(x any) {
	r.mu.Lock()
	defer r.mu.Unlock()
	if len(r.samples) < r.sampleCap {
		r.samples = append(r.samples, x)
	}
}

// SampleN reports how many samples are stored.
func (r *Run) SampleN() int { r.mu.Lock(); defer r.mu.Unlock(); return len(r.samples) }

// Outcome records a distinct observed outcome (hashed).
func (r *Run) Outcome(s string) { r.setAdd(r.outcomes, s) }

// Nontrivial records a distinct non-trivial case (hashed).
func (r *Run) Nontrivial(s string) { r.setAdd(r.nontrivial, s) }

// State records a distinct canonical state/case (hashed).
func (r *Run) State(s string) { r.setAdd(r.states, s) }

func (r *Run) setAdd(m map[string]struct{}, s string) {
	h := sha1.Sum([]byte(s))
	k := string(h[:10])
	r.mu.Lock()
	m[k] = struct{}{}
	r.mu.Unlock()
}

// Violate records a violation.
func (r *Run) Violate(kind, detail string, witness map[string]any) {
	r.mu.Lock()
	defer r.mu.Unlock()
	r.kindCount[kind]++
	if f := os.Getenv("VERIF_DUMP_VIOLATIONS"); f != "" {
		// debugging aid: append every violation (not only the first of each kind) to the named file
		if fh, err := os.OpenFile(f, os.O_APPEND|os.O_CREATE|os.O_WRONLY, 0o644); err == nil {
			b, _ := json.Marshal(map[string]any{"kind": kind, "detail": detail, "witness": witness})
			fh.Write(append(b, '\n'))
			fh.Close()
		}
	}
	if len(r.byKind[kind]) < 40 {
		r.byKind[kind] = append(r.byKind[kind], Violation{kind, detail, witness})
	}
}

func (f Finding) accepts(v Violation) bool {
	if f.Kind != v.Kind {
		if ok, err := regexp.MatchString("^(?:"+f.Kind+")$", v.Kind); err != nil || !ok {
			return false
		}
	}
	for k, re := range f.Match {
		val := fmt.Sprint(v.Witness[k])
		ok, err := regexp.MatchString("^(?:"+re+")$", val)
		if err != nil || !ok {
			return false
		}
	}
	return true
}

// Finish writes the evidence file, prints KNOWN-FINDING / VIOLATION lines and exits.
func (r *Run) Finish(rule string) {
	wall := time.Since(r.start).Seconds()
	var unlisted []Violation
	var unlistedTotal int64
	knownHit := map[string]int{}
	knownExample := map[string]string{}
	kinds := make([]string, 0, len(r.byKind))
	for k := range r.byKind {
		kinds = append(kinds, k)
	}
	sort.Strings(kinds)
	for _, k := range kinds {
		allKnown := true
		for _, v := range r.byKind[k] {
			matched := false
			for _, f := range r.findings {
				if f.Status == "open" && f.accepts(v) {
					knownHit[f.ID]++
					if _, ok := knownExample[f.ID]; !ok {
						d := v.Detail
						if len(d) > 700 {
							d = d[:700] + "…"
						}
						knownExample[f.ID] = d
					}
					matched = true
					break
				}
			}
			if !matched {
				allKnown = false
				unlisted = append(unlisted, v)
			}
		}
		if !allKnown {
			unlistedTotal += r.kindCount[k]
		}
	}
	for _, f := range r.findings {
		if f.Status == "open" && knownHit[f.ID] > 0 {
			fmt.Printf("KNOWN-FINDING: property=%s %s [%s] (%d witnesses this run)\n", r.Prop, f.What, f.ID, knownHit[f.ID])
		}
	}
	// one replay file per kind (simplest-first enumeration => first witness is smallest)
	seenKind := map[string]bool{}
	var replayPaths []string
	if r.Replay == "" {
		if old, _ := filepath.Glob(filepath.Join(OutDir, "replays", r.Prop+"-*.json")); len(old) > 0 {
			for _, f := range old {
				os.Remove(f)
			}
		}
		for _, v := range unlisted {
			if seenKind[v.Kind] {
				continue
			}
			seenKind[v.Kind] = true
			p := r.writeReplay(v)
			replayPaths = append(replayPaths, p)
			fmt.Printf("VIOLATION property=%s replay=%s\n", r.Prop, p)
			fmt.Printf("  kind=%s: %s\n", v.Kind, v.Detail)
		}
	} else {
		for _, v := range unlisted {
			fmt.Printf("VIOLATION property=%s replay=%s\n  kind=%s: %s\n", r.Prop, r.Replay, v.Kind, v.Detail)
		}
	}
	cov := map[string]any{}
	names := make([]string, 0, len(r.counters))
	for n := range r.counters {
		names = append(names, n)
	}
	sort.Strings(names)
	for _, n := range names {
		cov[n] = atomic.LoadInt64(r.counters[n])
	}
	for k, v := range r.Extra {
		cov[k] = v
	}
	if _, ok := cov["states"]; !ok {
		cov["states"] = int64(len(r.states))
	}
	if _, ok := cov["distinct_nontrivial"]; !ok {
		cov["distinct_nontrivial"] = int64(len(r.nontrivial))
	}
	cov["distinct_outcomes"] = int64(len(r.outcomes))
	cov["rule"] = rule
	cov["exhaustive"] = r.exhaustive
	if len(r.capNotes) > 0 {
		cov["caps_hit"] = r.capNotes
	}
	if len(r.samples) == 0 {
		r.samples = append(r.samples, "no sample recorded")
	}
	cov["samples"] = r.samples
	kc := map[string]int64{}
	for k, n := range r.kindCount {
		kc[k] = n
	}
	cov["violation_kinds"] = kc
	cov["known_findings_hit"] = knownHit
	cov["known_finding_examples"] = knownExample
	ev := map[string]any{
		"property_id": r.Prop, "tier": r.Tier, "seed": r.Seed, "level": "model_checking",
		"coverage": cov, "assumptions": r.Assumptions, "wall_s": wall,
		"violations": len(unlisted),
	}
	if r.Replay == "" {
		b, _ := json.MarshalIndent(ev, "", " ")
		os.MkdirAll(filepath.Join(OutDir, "evidence"), 0o755)
		if err := os.WriteFile(filepath.Join(OutDir, "evidence", r.Prop+".json"), b, 0o644); err != nil {
			fmt.Fprintf(os.Stderr, "harness error: %v\n", err)
			os.Exit(2)
		}
	}
	fmt.Printf("%s %s: evaluations=%v states=%v transitions=%v validated=%v nontrivial=%v outcomes=%d exhaustive=%v wall=%.1fs unlisted_violations=%d\n",
		r.Prop, r.Tier, cov["evaluations"], cov["states"], cov["transitions"], cov["traces_validated_against_impl"],
		cov["distinct_nontrivial"], len(r.outcomes), r.exhaustive, wall, unlistedTotal)
	if len(unlisted) > 0 {
		os.Exit(1)
	}
	os.Exit(0)
}

func (r *Run) writeReplay(v Violation) string {
	doc := map[string]any{"property": r.Prop, "kind": v.Kind, "detail": v.Detail, "witness": v.Witness}
	b, _ := json.MarshalIndent(doc, "", " ")
	h := sha1.Sum(b)
	dir := filepath.Join(OutDir, "replays")
	os.MkdirAll(dir, 0o755)
	p := filepath.Join(dir, fmt.Sprintf("%s-%x.json", r.Prop, h[:6]))
	os.WriteFile(p, b, 0o644)
	return p
}

// ReadReplay loads the witness of a replay file.
func ReadReplay(path string) (kind string, w map[string]any) {
	b, err := os.ReadFile(path)
	if err != nil {
		fmt.Fprintf(os.Stderr, "harness error: %v\n", err)
		os.Exit(2)
	}
	var doc struct {
		Kind    string         `json:"kind"`
		Witness map[string]any `json:"witness"`
	}
	if err := json.Unmarshal(b, &doc); err != nil {
		fmt.Fprintf(os.Stderr, "harness error: %v\n", err)
		os.Exit(2)
	}
	return doc.Kind, doc.Witness
}

// Workers is the degree of parallelism.
func Workers() int {
	n := runtime.NumCPU()
	if n > 16 {
		n = 16
	}
	if s := os.Getenv("VERIF_WORKERS"); s != "" {
		if k, err := strconv.Atoi(s); err == nil && k > 0 {
			n = k
		}
	}
	return n
}

// ForRange runs fn(i) for i in [0,n) on Workers() goroutines. A panic escaping fn is a
// harness error (checks that treat panics as violations recover themselves).
func ForRange(n int, fn func(i int)) {
	var next int64 = -1
	var wg sync.WaitGroup
	for w := 0; w < Workers(); w++ {
		wg.Add(1)
		go func() {
			defer wg.Done()
			defer func() {
				if p := recover(); p != nil {
					fmt.Fprintf(os.Stderr, "harness error: panic in worker: %v\n%s\n", p, debug.Stack())
					os.Exit(2)
				}
			}()
			for {
				i := int(atomic.AddInt64(&next, 1))
				if i >= n {
					return
				}
				fn(i)
			}
		}()
	}
	wg.Wait()
}

// Try runs fn and converts a panic into (panicValue, stack).
func Try(fn func()) (pv any, stack string) {
	defer func() {
		if p := recover(); p != nil {
			pv = p
			stack = string(debug.Stack())
		}
	}()
	fn()
	return nil, ""
}

// ShortStack trims a stack trace to the frames inside the repository.
func ShortStack(s string) string {
	var out []string
	repo := os.Getenv("VERIF_REPO")
	if repo == "" {
		repo = "/repo"
	}
	lines := strings.Split(s, "\n")
	for i := 0; i+1 < len(lines); i++ {
		if strings.Contains(lines[i+1], repo+"/") && !strings.Contains(lines[i], "panic(") {
			fn := strings.TrimSpace(lines[i])
			if j := strings.Index(fn, "("); j > 0 && !strings.HasPrefix(fn[j:], "(*") {
				fn = fn[:j]
			} else if j := strings.LastIndex(fn, "("); j > 0 {
				fn = fn[:j]
			}
			loc := strings.TrimSpace(lines[i+1])
			if j := strings.Index(loc, " +0x"); j > 0 {
				loc = loc[:j]
			}
			out = append(out, fn+" @ "+loc)
			if len(out) >= 6 {
				break
			}
		}
	}
	return strings.Join(out, " | ")
}
