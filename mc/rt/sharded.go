package rt

import (
	"bufio"
	"encoding/json"
	"fmt"
	"os"
	"os/exec"
	"strings"
	"sync"
	"time"
)

// WorkerExe, when set, is the executable started for workers instead of the running binary (used to run
// cases in a differently instrumented build of the same program).
var WorkerExe string

// ConfirmRuns is how many times a stuck case is re-run alone before it is believed.
var ConfirmRuns = 2

// MaxStuck ends the exploration early (marking the run non-exhaustive) once this many cases were
// confirmed stuck: each costs its full deadline several times and the violation is established.
var MaxStuck = 6

// CaseResult is what a worker reports for one case.
type CaseResult struct {
	Type       string           `json:"type"` // start | done
	Case       int              `json:"case"`
	Counters   map[string]int64 `json:"counters,omitempty"`
	Violations []Violation      `json:"violations,omitempty"`
	Outcome    string           `json:"outcome,omitempty"`
	Sample     any              `json:"sample,omitempty"`
	Label      string           `json:"label,omitempty"` // human description of the case (sent with start)
}

// WorkerMain runs cases i = shard, shard+of, ... >= from in this (worker) process, reporting on stdout.
// describe gives the label of a case; run executes it.
func WorkerMain(shard, of, from, n int, describe func(i int) string, run func(i int) CaseResult) {
	w := bufio.NewWriter(os.Stdout)
	enc := json.NewEncoder(w)
	for i := shard; i < n; i += of {
		if i < from {
			continue
		}
		enc.Encode(CaseResult{Type: "start", Case: i, Label: describe(i)})
		w.Flush()
		res := run(i)
		res.Type = "done"
		res.Case = i
		enc.Encode(res)
		w.Flush()
	}
}

// RunSharded runs n cases in killable worker subprocesses (`self workerArgs... <shard> <of> <from>`), each
// under `ulimit -v memKB`. A case that does not report within caseTimeout (or whose worker dies) is re-run
// alone up to `retries` times; if it never returns it is recorded through onStuck. Results are merged into r.
func RunSharded(r *Run, n int, workerArgs []string, caseTimeout time.Duration, memKB int, onStuck func(caseIdx int, label, how string)) {
	self, err := os.Executable()
	if err != nil {
		panic(err)
	}
	if WorkerExe != "" {
		self = WorkerExe
	}
	workers := Workers()
	if workers > n {
		workers = n
	}
	var mu sync.Mutex
	reported := map[int]bool{} // cases whose result (or whose failure to return) has been recorded
	merge := func(res CaseResult) {
		reported[res.Case] = true
		for k, v := range res.Counters {
			r.Add(k, v)
		}
		for _, v := range res.Violations {
			r.Violate(v.Kind, v.Detail, v.Witness)
		}
		if res.Outcome != "" {
			r.Outcome(res.Outcome)
		}
		if res.Sample != nil {
			r.Sample(res.Sample)
		}
	}
	// runWorker runs one worker from `from`; returns (stuckCase, label, how) or -1 when the shard completed.
	runWorker := func(shard, of, from int) (int, string, string) {
		cmdline := fmt.Sprintf("ulimit -v %d; exec %q %s %d %d %d", memKB, self, strings.Join(workerArgs, " "), shard, of, from)
		cmd := exec.Command("bash", "-c", cmdline)
		cmd.Env = append(os.Environ(), "GOMAXPROCS=2")
		out, err := cmd.StdoutPipe()
		if err != nil {
			panic(err)
		}
		var stderrBuf strings.Builder
		cmd.Stderr = &limitedWriter{&stderrBuf, 40000}
		if err := cmd.Start(); err != nil {
			panic(err)
		}
		lines := make(chan CaseResult, 64)
		go func() {
			sc := bufio.NewScanner(out)
			sc.Buffer(make([]byte, 1<<20), 1<<26)
			for sc.Scan() {
				var res CaseResult
				if json.Unmarshal(sc.Bytes(), &res) == nil {
					lines <- res
				}
			}
			close(lines)
		}()
		cur, curLabel := -1, ""
		timer := time.NewTimer(caseTimeout)
		defer timer.Stop()
		for {
			select {
			case res, ok := <-lines:
				if !ok {
					err := cmd.Wait()
					if cur >= 0 {
						return cur, curLabel, fmt.Sprintf("worker died (%v): %s", err, tail(stderrBuf.String(), 30000))
					}
					if err != nil {
						fmt.Fprintf(os.Stderr, "harness error: worker failed outside a case: %v\n%s\n", err, stderrBuf.String())
						os.Exit(2)
					}
					return -1, "", ""
				}
				if res.Type == "start" {
					cur, curLabel = res.Case, res.Label
					if !timer.Stop() {
						select {
						case <-timer.C:
						default:
						}
					}
					timer.Reset(caseTimeout)
				} else {
					mu.Lock()
					merge(res)
					mu.Unlock()
					cur = -1
				}
			case <-timer.C:
				if cur < 0 {
					// between two cases (the last one has reported, the next has not started yet): nothing is
					// stuck; keep listening. Killing the worker here would silently drop the rest of its shard.
					timer.Reset(caseTimeout)
					continue
				}
				cmd.Process.Kill()
				cmd.Wait()
				return cur, curLabel, fmt.Sprintf("no answer within %v", caseTimeout)
			}
		}
	}
	var wg sync.WaitGroup
	stuckCount := 0
	for s := 0; s < workers; s++ {
		wg.Add(1)
		go func(shard int) {
			defer wg.Done()
			from := 0
			for {
				stuck, label, how := runWorker(shard, workers, from)
				if stuck < 0 {
					return
				}
				// re-run the stuck case alone, up to 2 more times, before believing it
				confirmed := true
				for attempt := 0; attempt < ConfirmRuns; attempt++ {
					// alone and with six times the time: a case that was merely starved on a loaded machine completes now
					s2, _, _ := runWorkerSingle(self, workerArgs, stuck, 6*caseTimeout, memKB, func(res CaseResult) {
						mu.Lock()
						merge(res)
						mu.Unlock()
					})
					if !s2 {
						confirmed = false
						break
					}
				}
				if confirmed {
					mu.Lock()
					reported[stuck] = true
					onStuck(stuck, label, how)
					stuckCount++
					over := stuckCount >= MaxStuck
					mu.Unlock()
					if over {
						r.Capped(fmt.Sprintf("stopped after %d cases did not return", MaxStuck))
						return
					}
				}
				mu.Lock()
				over := stuckCount >= MaxStuck
				mu.Unlock()
				if over {
					return
				}
				from = stuck + 1
			}
		}(s)
	}
	wg.Wait()
	if len(reported) != n {
		// never call a run exhaustive when a case was neither executed nor recorded as not returning
		r.Capped(fmt.Sprintf("%d of %d cases were not executed (a worker ended early)", n-len(reported), n))
	}
}

// runWorkerSingle runs exactly one case in its own worker; returns stuck=true if it did not report.
func runWorkerSingle(self string, workerArgs []string, idx int, caseTimeout time.Duration, memKB int, merge func(CaseResult)) (bool, string, string) {
	// shard=idx, of=huge: only case idx is run
	cmdline := fmt.Sprintf("ulimit -v %d; exec %q %s %d %d %d", memKB, self, strings.Join(workerArgs, " "), idx, 1<<30, idx)
	cmd := exec.Command("bash", "-c", cmdline)
	cmd.Env = append(os.Environ(), "VERIF_CONFIRM_RUN=1") // workers with a watchdog of their own give a confirmation run more time
	out, _ := cmd.StdoutPipe()
	if err := cmd.Start(); err != nil {
		panic(err)
	}
	done := make(chan *CaseResult, 1)
	go func() {
		sc := bufio.NewScanner(out)
		sc.Buffer(make([]byte, 1<<20), 1<<26)
		var last *CaseResult
		for sc.Scan() {
			var res CaseResult
			if json.Unmarshal(sc.Bytes(), &res) == nil && res.Type == "done" {
				r := res
				last = &r
			}
		}
		done <- last
	}()
	select {
	case res := <-done:
		cmd.Wait()
		if res == nil {
			return true, "", "worker died"
		}
		merge(*res)
		return false, "", ""
	case <-time.After(caseTimeout):
		cmd.Process.Kill()
		cmd.Wait()
		return true, "", "timeout"
	}
}

type limitedWriter struct {
	sb  *strings.Builder
	max int
}

func (l *limitedWriter) Write(p []byte) (int, error) {
	if l.sb.Len() < l.max {
		l.sb.Write(p)
	}
	return len(p), nil
}

func tail(s string, n int) string {
	if len(s) > n {
		return s[len(s)-n:]
	}
	return s
}
