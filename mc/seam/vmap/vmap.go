// Package vmap gives the verification harness ownership of Go map iteration order. It is injected
// at build time (go build -overlay): every range-over-map in the repository's non-test code becomes
// range-over-Range(m). It is not part of the repository.
//
// Range yields the entries of m in a canonical order (keys sorted by their printed form) permuted
// according to the current Policy. Entries deleted during the iteration are skipped, entries added
// are not visited — both behaviours the Go specification permits for map iteration.
package vmap

import (
	"fmt"
	"iter"
	"reflect"
	"sort"
	"sync"
)

// Policy decides the order of each dynamic range execution.
type Policy struct {
	Mode        int // 0 sorted, 1 reversed, 2 rotate by one, 3 rotate by half
	DeviateAt   int // index of the dynamic range execution (over maps with >= 2 keys) that deviates; -1 = none
	DeviatePerm int // which alternative order the deviating execution uses (1-based among Alternatives(n))
}

var (
	mu      sync.Mutex
	policy  = Policy{DeviateAt: -1}
	counter int
	sizes   []int
)

// Set installs a policy and resets the point counter.
func Set(p Policy) {
	mu.Lock()
	policy, counter, sizes = p, 0, sizes[:0]
	mu.Unlock()
}

// Points returns the number of keys of each dynamic range execution (maps with >= 2 keys) since Set.
func Points() []int {
	mu.Lock()
	defer mu.Unlock()
	return append([]int{}, sizes...)
}

// Alternatives is the number of non-default orders offered for a map of n keys:
// all n!-1 for n <= 3, otherwise reversal, n-1 rotations and n-1 adjacent transpositions.
func Alternatives(n int) int {
	switch {
	case n < 2:
		return 0
	case n == 2:
		return 1
	case n == 3:
		return 5
	}
	return 1 + (n - 1) + (n - 1)
}

func permute(idx []int, alt int) {
	n := len(idx)
	switch {
	case n == 2:
		idx[0], idx[1] = idx[1], idx[0]
	case n == 3:
		perms := [][3]int{{0, 2, 1}, {1, 0, 2}, {1, 2, 0}, {2, 0, 1}, {2, 1, 0}}
		p := perms[(alt-1)%5]
		a, b, c := idx[p[0]], idx[p[1]], idx[p[2]]
		idx[0], idx[1], idx[2] = a, b, c
	default:
		switch {
		case alt == 1:
			reverse(idx)
		case alt <= n:
			rotate(idx, alt-1)
		default:
			i := (alt - n - 1) % (n - 1)
			idx[i], idx[i+1] = idx[i+1], idx[i]
		}
	}
}

func reverse(x []int) {
	for i, j := 0, len(x)-1; i < j; i, j = i+1, j-1 {
		x[i], x[j] = x[j], x[i]
	}
}

func rotate(x []int, k int) {
	n := len(x)
	k %= n
	y := append(append([]int{}, x[k:]...), x[:k]...)
	copy(x, y)
}

func keyString(v reflect.Value) string {
	for v.Kind() == reflect.Pointer || v.Kind() == reflect.Interface {
		if v.IsNil() {
			return "<nil>"
		}
		v = v.Elem()
	}
	return fmt.Sprintf("%s:%+v", v.Type().String(), v.Interface())
}

// Range iterates m in the order chosen by the current policy.
func Range[M ~map[K]V, K comparable, V any](m M) iter.Seq2[K, V] {
	return func(yield func(K, V) bool) {
		n := len(m)
		if n == 0 {
			return
		}
		keys := make([]K, 0, n)
		for k := range m {
			keys = append(keys, k)
		}
		if n >= 2 {
			strs := make([]string, n)
			for i, k := range keys {
				switch x := any(k).(type) {
				case string:
					strs[i] = "s:" + x
				case fmt.Stringer:
					strs[i] = "S:" + x.String()
				default:
					strs[i] = keyString(reflect.ValueOf(&k).Elem())
				}
			}
			idx := make([]int, n)
			for i := range idx {
				idx[i] = i
			}
			sort.SliceStable(idx, func(a, b int) bool { return strs[idx[a]] < strs[idx[b]] })
			mu.Lock()
			p := policy
			me := counter
			counter++
			sizes = append(sizes, n)
			mu.Unlock()
			if p.DeviateAt == me {
				permute(idx, p.DeviatePerm)
			} else {
				switch p.Mode {
				case 1:
					reverse(idx)
				case 2:
					rotate(idx, 1)
				case 3:
					rotate(idx, (n+1)/2)
				}
			}
			ordered := make([]K, n)
			for i, j := range idx {
				ordered[i] = keys[j]
			}
			keys = ordered
		}
		for _, k := range keys {
			v, ok := m[k]
			if !ok {
				continue // deleted during the iteration
			}
			if !yield(k, v) {
				return
			}
		}
	}
}
