// Package vsync is a drop-in replacement for the parts of package sync that the repository uses
// (RWMutex, Mutex, Pool, Once). It is injected at build time by the verification harness
// (go build -overlay rewrites `"sync"` to this package in the repository's non-test files); it is
// not part of the repository.
//
// Without an active scheduler every type behaves exactly like its sync counterpart (it wraps
// it). With an active scheduler (see Sched) every operation is a scheduling point of a
// cooperative scheduler that runs exactly one managed goroutine at a time, so that a driver can
// enumerate interleavings.
package vsync

import (
	"fmt"
	"sync"
)

// ---- scheduler ------------------------------------------------------------------------------

// Point is one recorded scheduling decision.
type Point struct {
	Enabled        []int // canonical order: running thread first if still enabled, then ascending ids
	Chosen         int   // index into Enabled
	Running        int   // thread that reached the point (-1 at start or after a thread finished)
	RunningEnabled bool
	Label          string
}

type thr struct {
	id      int
	gate    chan struct{}
	done    bool
	enabled func() bool
	label   string
}

// Sched is a cooperative scheduler for a fixed set of threads.
type Sched struct {
	threads  []*thr
	cur      int
	prefix   []int
	Points   []Point
	Deadlock bool
	Diverged bool // the prefix asked for a choice that does not exist
	MaxSteps int
	Overrun  bool
	finished chan struct{}
	// environment choices (e.g. sync.Pool answers) share the choice sequence
}

var (
	activeMu sync.Mutex
	active   *Sched
)

// Active returns the scheduler that currently manages execution, or nil.
func Active() *Sched {
	activeMu.Lock()
	defer activeMu.Unlock()
	return active
}

func setActive(s *Sched) {
	activeMu.Lock()
	active = s
	activeMu.Unlock()
}

// Run executes the thread bodies under the schedule given by prefix (choices beyond the prefix
// default to 0 = keep running the current thread / lowest id). It returns when all threads are
// done, or on deadlock / step overrun.
func Run(prefix []int, bodies []func()) *Sched {
	s := &Sched{prefix: prefix, cur: -1, MaxSteps: 100000, finished: make(chan struct{})}
	for i, body := range bodies {
		t := &thr{id: i, gate: make(chan struct{}), enabled: func() bool { return true }, label: "start"}
		s.threads = append(s.threads, t)
		body := body
		go func() {
			<-t.gate
			body()
			t.done = true
			s.handOff(-1)
		}()
	}
	resetPools()
	setActive(s)
	s.handOff(-1)
	<-s.finished
	setActive(nil)
	return s
}

// Choose records an environment decision with n alternatives (0 is the default) at the current
// position of the choice sequence. It is not a context switch.
func (s *Sched) Choose(n int, label string) int {
	en := make([]int, n)
	for i := range en {
		en[i] = -100 - i // marks an environment choice
	}
	c := 0
	if len(s.Points) < len(s.prefix) {
		c = s.prefix[len(s.Points)]
		if c >= n {
			s.Diverged = true
			c = 0
		}
	}
	s.Points = append(s.Points, Point{Enabled: en, Chosen: c, Running: s.cur, RunningEnabled: true, Label: label})
	return c
}

// handOff picks the next thread. from is the calling thread (-1 for the driver or a finished thread).
// The caller, if it is a live thread, must afterwards wait on its gate unless it was chosen.
func (s *Sched) handOff(from int) (chosen int) {
	var enabled []int
	fromEnabled := false
	if from >= 0 && !s.threads[from].done && s.threads[from].enabled() {
		enabled = append(enabled, from)
		fromEnabled = true
	}
	alive := 0
	for _, t := range s.threads {
		if t.done {
			continue
		}
		alive++
		if t.id != from && t.enabled() {
			enabled = append(enabled, t.id)
		}
	}
	if alive == 0 {
		close(s.finished)
		return -1
	}
	if len(enabled) == 0 {
		s.Deadlock = true
		close(s.finished)
		return -1
	}
	if len(s.Points) >= s.MaxSteps {
		s.Overrun = true
		close(s.finished)
		return -1
	}
	c := 0
	if len(s.Points) < len(s.prefix) {
		c = s.prefix[len(s.Points)]
		if c >= len(enabled) {
			s.Diverged = true
			c = 0
		}
	}
	label := ""
	if from >= 0 {
		label = s.threads[from].label
	}
	s.Points = append(s.Points, Point{Enabled: enabled, Chosen: c, Running: from, RunningEnabled: fromEnabled, Label: label})
	next := enabled[c]
	s.cur = next
	if next != from {
		s.threads[next].gate <- struct{}{}
	}
	return next
}

// Yield is a scheduling point of the running thread: the pending operation may proceed once
// enabled() holds. It returns when this thread is scheduled with the operation enabled.
func (s *Sched) Yield(label string, enabled func() bool) {
	me := s.cur
	t := s.threads[me]
	t.enabled, t.label = enabled, label
	if next := s.handOff(me); next != me {
		<-t.gate // parked until chosen again (forever if the run ended in deadlock/overrun)
	}
	t.enabled = func() bool { return true }
}

// Step is a plain scheduling point (always enabled); used by stepped harness objects.
func Step(label string) {
	if s := Active(); s != nil {
		s.Yield(label, func() bool { return true })
	}
}

// CurrentThread returns the id of the running managed thread (or -1).
func CurrentThread() int {
	if s := Active(); s != nil {
		return s.cur
	}
	return -1
}

// ---- sync replacements ----------------------------------------------------------------------

// Locker mirrors sync.Locker.
type Locker = sync.Locker

// WaitGroup is passed through unchanged (not used by the repository's non-test code).
type WaitGroup = sync.WaitGroup

// Mutex mirrors sync.Mutex.
type Mutex struct {
	real sync.Mutex
	held bool
}

func (m *Mutex) Lock() {
	if s := Active(); s != nil {
		s.Yield("Mutex.Lock", func() bool { return !m.held })
		m.held = true
		return
	}
	m.real.Lock()
}

func (m *Mutex) Unlock() {
	if s := Active(); s != nil {
		if !m.held {
			panic("vsync: unlock of unlocked mutex")
		}
		m.held = false
		s.Yield("Mutex.Unlock", func() bool { return true })
		return
	}
	m.real.Unlock()
}

// RWMutex mirrors sync.RWMutex.
type RWMutex struct {
	real    sync.RWMutex
	writer  bool
	readers int
}

func (m *RWMutex) Lock() {
	if s := Active(); s != nil {
		s.Yield("RWMutex.Lock", func() bool { return !m.writer && m.readers == 0 })
		m.writer = true
		return
	}
	m.real.Lock()
}

func (m *RWMutex) Unlock() {
	if s := Active(); s != nil {
		if !m.writer {
			panic("vsync: Unlock of unlocked RWMutex")
		}
		m.writer = false
		s.Yield("RWMutex.Unlock", func() bool { return true })
		return
	}
	m.real.Unlock()
}

func (m *RWMutex) RLock() {
	if s := Active(); s != nil {
		s.Yield("RWMutex.RLock", func() bool { return !m.writer })
		m.readers++
		return
	}
	m.real.RLock()
}

func (m *RWMutex) RUnlock() {
	if s := Active(); s != nil {
		if m.readers <= 0 {
			panic("vsync: RUnlock of unlocked RWMutex")
		}
		m.readers--
		s.Yield("RWMutex.RUnlock", func() bool { return true })
		return
	}
	m.real.RUnlock()
}

// RLocker mirrors sync.RWMutex.RLocker.
func (m *RWMutex) RLocker() Locker { return (*rlocker)(m) }

type rlocker RWMutex

func (r *rlocker) Lock()   { (*RWMutex)(r).RLock() }
func (r *rlocker) Unlock() { (*RWMutex)(r).RUnlock() }

// Once mirrors sync.Once (a scheduling point before the function runs).
type Once struct {
	real sync.Once
	done bool
	m    Mutex
}

func (o *Once) Do(f func()) {
	if s := Active(); s != nil {
		o.m.Lock()
		if !o.done {
			f()
			o.done = true
		}
		o.m.Unlock()
		return
	}
	o.real.Do(func() { f(); o.done = true })
}

// Pool mirrors sync.Pool. Under a scheduler, Get is an environment choice among
// {most recently returned object, least recently returned object, fresh New()} and both Get
// and Put are scheduling points; objects are never dropped.
type Pool struct {
	New   func() any
	real  sync.Pool
	items []any
}

var (
	poolsMu sync.Mutex
	pools   = map[*Pool]bool{}
)

func (p *Pool) register() {
	poolsMu.Lock()
	pools[p] = true
	poolsMu.Unlock()
}

// resetPools empties every pool that was used under a scheduler, so that each run starts from
// the same state.
func resetPools() {
	poolsMu.Lock()
	for p := range pools {
		p.items = nil
	}
	poolsMu.Unlock()
}

func (p *Pool) Get() any {
	if s := Active(); s != nil {
		p.register()
		s.Yield("Pool.Get", func() bool { return true })
		switch n := len(p.items); {
		case n == 1:
			if s.Choose(2, "Pool.Get answer: pooled object or fresh") == 0 {
				x := p.items[0]
				p.items = p.items[:0]
				return x
			}
		case n >= 2:
			switch s.Choose(3, fmt.Sprintf("Pool.Get answer: newest, oldest or fresh (%d pooled)", n)) {
			case 0:
				x := p.items[n-1]
				p.items = p.items[:n-1]
				return x
			case 1:
				x := p.items[0]
				p.items = append([]any{}, p.items[1:]...)
				return x
			}
		}
		if p.New != nil {
			return p.New()
		}
		return nil
	}
	if x := p.real.Get(); x != nil {
		return x
	}
	if p.New != nil {
		return p.New()
	}
	return nil
}

func (p *Pool) Put(x any) {
	if s := Active(); s != nil {
		p.register()
		p.items = append(p.items, x)
		s.Yield("Pool.Put", func() bool { return true })
		return
	}
	p.real.Put(x)
}
