package interpreter

// This file is added to package interpreter through `go build -overlay` by the verification
// harness (/verif); it is not part of the repository. It reproduces, as a callable method, the
// four lines with which Loop issues a definition (call Define, restore the buffer on failure).

// VerifDefineLikeLoop issues clauseText the way Loop's default branch does.
func (i *Interpreter) VerifDefineLikeLoop(clauseText string) error {
	savedBuffer := i.buffer
	if err := i.Define(clauseText); err != nil {
		i.buffer = savedBuffer
		return err
	}
	return nil
}

// VerifLoopSource returns the text this hook mirrors, so the harness can check that Loop still
// issues definitions this way.
const VerifLoopSource = "savedBuffer := i.buffer|if err := i.Define(clauseText); err != nil {|i.buffer = savedBuffer"
